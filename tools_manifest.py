#!/usr/bin/env python3
"""Regenerates MANIFEST.json from harness/*/spec.json + manifest_meta.json."""
import json, os, glob
root = os.path.dirname(os.path.abspath(__file__))
meta = json.load(open(os.path.join(root, 'manifest_meta.json')))
props = [json.loads(l)['id'] for l in open(os.path.join(root, 'properties.jsonl'))]
checks = []
na = []
for pid in props:
    m = meta['properties'].get(pid, {})
    spec = os.path.join(root, 'harness', pid, 'spec.json')
    if m.get('claimed') and os.path.exists(spec):
        checks.append({
            "property_id": pid,
            "quick_cmd": f"./checks/run {pid} quick",
            "thorough_cmd": f"./checks/run {pid} thorough",
            "evidence_file": f"/verif/evidence/{pid}.json",
            "replay_cmd_template": f"./checks/run {pid} --replay {{path}}",
            "engine": "gosym",
            "level_claimed": {"category": "model_checking", "text": m['text'], "design_ref": m.get('design_ref', 'DESIGN.md §7 ' + pid)},
            "level_note": m['note'],
            "technique": m.get('technique', meta['default_technique']),
        })
    else:
        na.append({"property_id": pid, "reason": m.get('na_reason', meta['default_na'])})
man = {
    "version": 1,
    "setup_cmd": meta['setup_cmd'],
    "hooks": meta['hooks'],
    "engines": meta['engines'],
    "checks": checks,
    "notes": meta['notes'],
    "not_applicable": na,
}
for e in man['engines']:
    e['serves_properties'] = [c['property_id'] for c in checks]
json.dump(man, open(os.path.join(root, 'MANIFEST.json'), 'w'), indent=1)
print("claimed:", [c['property_id'] for c in checks])
