//go:build verif

// Package c03 holds the confinement harness for every view kind.
package c03

import (
	"bytes"
	"os"

	"github.com/goatcms/goatcore/filesystem"
	"github.com/goatcms/goatcore/filesystem/filespace/diskfs"
	"github.com/goatcms/goatcore/filesystem/filespace/memfs"
	"github.com/goatcms/goatcore/filesystem/fscache"
	"github.com/goatcms/goatcore/filesystem/fshelper"
	_ "github.com/goatcms/goatcore/zzverif/hostfs" // host model behind the disk kind (initialised with this package)
	"github.com/goatcms/goatcore/zzverif/nd"
	"github.com/goatcms/goatcore/zzverif/reftree"
)

var zzMarker = []byte("M")

var zzCleanup = func() {}

const (
	kWrapper = iota
	kSubFS
	kROChild
	kCacheChild
	kWrapperOfWrapper
	kSubOfWrapper
	kDiskChild
	kNKinds
)

var zzKindName = []string{"wrapper", "subfs", "rochild", "cachechild", "wrapwrap", "subwrap", "diskchild"}

// zzBuild creates the parent tree
//
//	i/x = "i", i/d/            (the child's root is i/)
//	g = "M", io/y = "M"        (outside; marker content; the directory io
//	                            shares its name prefix with the view root)
//
// and returns the parent through which the outside is observed and the view
// under test.
func zzBuild(kind int) (parent filesystem.Filespace, view filesystem.Filespace) {
	root, _ := memfs.NewFilespace()
	if kind == kDiskChild {
		// a disk filespace over the host model (natively: a scratch directory)
		base := "/r"
		if nd.Concrete() {
			d, err := os.MkdirTemp("", "zzc03")
			nd.Assume(err == nil)
			base = d
			zzCleanup = func() { os.RemoveAll(d) }
		}
		nd.Assume(os.MkdirAll(base, 0755) == nil)
		dr, err := diskfs.NewFilespace(base)
		nd.Assume(err == nil)
		root = dr
	}
	w := func(p string, d string) {
		nd.Assume(root.WriteFile(p, []byte(d), filesystem.DefaultUnixFileMode) == nil)
	}
	switch kind {
	case kWrapperOfWrapper, kSubOfWrapper:
		w("w/i/x", "i")
		nd.Assume(root.MkdirAll("w/i/d", filesystem.DefaultUnixDirMode) == nil)
		w("w/g", "M")
		w("w/io/y", "M")
		mid, err := root.Filespace("w")
		nd.Assume(err == nil)
		parent = mid
		if kind == kWrapperOfWrapper {
			view, err = mid.Filespace("i")
			nd.Assume(err == nil)
		} else {
			view = fshelper.NewSubFS(mid, "i")
		}
		return parent, view
	}
	w("i/x", "i")
	nd.Assume(root.MkdirAll("i/d", filesystem.DefaultUnixDirMode) == nil)
	w("g", "M")
	w("io/y", "M")
	var err error
	switch kind {
	case kWrapper, kDiskChild:
		view, err = root.Filespace("i")
		nd.Assume(err == nil)
		return root, view
	case kSubFS:
		return root, fshelper.NewSubFS(root, "i")
	case kROChild:
		view, err = fshelper.NewReadonlyFS(root).Filespace("i")
		nd.Assume(err == nil)
		return root, view
	case kCacheChild:
		c, err := fscache.NewMemCache(root)
		nd.Assume(err == nil)
		view, err = c.Filespace("i")
		nd.Assume(err == nil)
		return c, view
	}
	return nil, nil
}

// zzOutsideIntact: the part of the parent that is not under i/ is exactly
// g="M", io/ = {y="M"}; i/ may or may not still exist.
func zzOutsideIntact(parent filesystem.Filespace) bool {
	infos, err := parent.ReadDir(".")
	if err != nil {
		return false
	}
	ok := true
	seenG, seenO := false, false
	for _, inf := range infos {
		n := inf.Name()
		isG := nd.And(n == "g", !inf.IsDir())
		isO := nd.And(n == "io", inf.IsDir())
		isIn := n == "i"
		seenG = nd.Or(seenG, isG)
		seenO = nd.Or(seenO, isO)
		ok = nd.And(ok, nd.Or(nd.Or(isG, isO), isIn))
	}
	ok = nd.And(ok, nd.And(seenG, seenO))
	ok = nd.And(ok, len(infos) <= 3)
	d, err := parent.ReadFile("g")
	ok = nd.And(ok, err == nil && bytes.Equal(d, zzMarker))
	oi, err := parent.ReadDir("io")
	ok = nd.And(ok, err == nil && len(oi) == 1)
	if err == nil && len(oi) == 1 {
		ok = nd.And(ok, nd.And(oi[0].Name() == "y", !oi[0].IsDir()))
	}
	d, err = parent.ReadFile("io/y")
	ok = nd.And(ok, err == nil && bytes.Equal(d, zzMarker))
	return ok
}

// zzNoMarkerInside: no file reachable under dir (depth-bounded) holds the
// marker content (a copy whose source escaped would bring it in).
func zzNoMarkerInside(fs filesystem.Filespace, dir string, depth int) bool {
	infos, err := fs.ReadDir(dir)
	if err != nil {
		return true
	}
	ok := true
	for _, inf := range infos {
		p := dir + "/" + inf.Name()
		if inf.IsDir() {
			if depth > 0 {
				ok = nd.And(ok, zzNoMarkerInside(fs, p, depth-1))
			}
			continue
		}
		d, err := fs.ReadFile(p)
		if err == nil {
			ok = nd.And(ok, !bytes.Equal(d, zzMarker))
		}
	}
	return ok
}

func zzInsideRef() *reftree.Node {
	r := reftree.NewRoot()
	r.WriteFile([]string{"x"}, []byte("i"))
	r.MkdirAll([]string{"d"})
	return r
}

func zzOutsideName(n string) bool {
	return nd.Or(nd.Or(n == "g", n == "io"), nd.Or(n == "y", n == "i"))
}

// zzConfine applies one operation with unconstrained path bytes through the
// view and checks that nothing outside the view's root was read, listed,
// created, changed or deleted.
func zzConfine(kind int) {
	parent, view := zzBuild(kind)
	defer func() { zzCleanup() }()
	name := zzKindName[kind]
	inside := zzInsideRef()
	L := nd.Param("L", 4)
	var p string
	// the path under test: any byte string up to L bytes, or one of the
	// climbing shapes (longer than L) with symbolic one-byte names
	name1 := func(label string) string {
		n := nd.String(label, 1)
		nd.Assume(nd.And(nd.And(n != "/", n != "."), n[0] != 0))
		return n
	}
	switch nd.Choose("shape", 1+nd.Param("SHAPES", 5)) {
	case 0:
		p = nd.StringUpTo("p", L)
	case 1:
		p = "../" + name1("n") + "/" + name1("m")
	case 2:
		p = "../../" + name1("n") + "/" + name1("m")
	case 3:
		p = name1("n") + "/../../" + name1("m") + "/" + name1("k")
	case 4:
		p = "/../" + name1("n") + "/" + name1("m")
	default:
		p = "./../" + name1("n") + "/../" + name1("m") + "/" + name1("k")
	}
	segs, _ := reftree.Norm(p)
	op := nd.Choose("op", 14)
	switch op {
	case 0:
		d, err := view.ReadFile(p)
		if err == nil {
			nd.Assert(!bytes.Equal(d, zzMarker), "C03/"+name+"/readfile-escapes")
		}
	case 1:
		r, err := view.Reader(p)
		if err == nil {
			buf := make([]byte, 4)
			n, _ := r.Read(buf)
			r.Close()
			nd.Assert(!bytes.Equal(buf[:n], zzMarker), "C03/"+name+"/reader-escapes")
		}
	case 2:
		infos, err := view.ReadDir(p)
		if err == nil {
			for _, inf := range infos {
				nd.Assert(nd.Not(zzOutsideName(inf.Name())), "C03/"+name+"/readdir-escapes")
			}
		}
	case 3:
		in := inside.Find(segs) != nil
		if !in {
			nd.Assert(!view.IsExist(p), "C03/"+name+"/isexist-escapes")
			nd.Assert(!view.IsFile(p), "C03/"+name+"/isfile-escapes")
			nd.Assert(!view.IsDir(p) || len(segs) == 0, "C03/"+name+"/isdir-escapes")
		}
	case 4:
		_, err := view.Lstat(p)
		if inside.Find(segs) == nil {
			nd.Assert(err != nil, "C03/"+name+"/lstat-escapes")
		}
	case 5:
		view.WriteFile(p, []byte("w"), filesystem.DefaultUnixFileMode)
		nd.Assert(zzOutsideIntact(parent), "C03/"+name+"/writefile-escapes")
	case 6:
		view.MkdirAll(p, filesystem.DefaultUnixDirMode)
		nd.Assert(zzOutsideIntact(parent), "C03/"+name+"/mkdirall-escapes")
	case 7:
		view.Remove(p)
		nd.Assert(zzOutsideIntact(parent), "C03/"+name+"/remove-escapes")
	case 8:
		view.RemoveAll(p)
		nd.Assert(zzOutsideIntact(parent), "C03/"+name+"/removeall-escapes")
	case 9:
		w, err := view.Writer(p)
		if err == nil {
			w.Write([]byte("w"))
			w.Close()
		}
		nd.Assert(zzOutsideIntact(parent), "C03/"+name+"/writer-escapes")
	case 13:
		// a view of the view obtained with the path under test: nothing
		// outside the original view's root may be reachable through it
		// (the view itself has been used with the same path strings before:
		// nothing remembered for the view may be served to the view of it)
		view.ReadFile("x")
		view.IsExist("x")
		sub, err := view.Filespace(p)
		if err == nil && len(segs) > 0 && inside.Find(segs) != nil && inside.Find(segs).Dir {
			// the sub-view is rooted at the (empty) directory d of the view:
			// the view's x is outside ITS root
			d, rerr := sub.ReadFile("x")
			nd.Assert(rerr != nil || !bytes.Equal(d, []byte("i")), "C03/"+name+"/subview-reads-parent-view-node")
			nd.Assert(!sub.IsExist("x"), "C03/"+name+"/subview-reads-parent-view-node")
			if sub.WriteFile("x", []byte("w"), filesystem.DefaultUnixFileMode) == nil {
				back, berr := view.ReadFile("x")
				nd.Assert(berr == nil && bytes.Equal(back, []byte("i")), "C03/"+name+"/subview-writes-parent-view-node")
			}
		}
		if err == nil {
			for _, q := range []string{"g", "io/y", "y", "i/x"} {
				d, err := sub.ReadFile(q)
				if err == nil {
					nd.Assert(!bytes.Equal(d, zzMarker), "C03/"+name+"/subview-read-escapes")
				}
			}
			infos, err := sub.ReadDir(".")
			if err == nil {
				for _, inf := range infos {
					nd.Assert(nd.Not(zzOutsideName(inf.Name())), "C03/"+name+"/subview-list-escapes")
				}
			}
			sub.WriteFile("g", []byte("w"), filesystem.DefaultUnixFileMode)
			sub.WriteFile("n", []byte("w"), filesystem.DefaultUnixFileMode)
			sub.RemoveAll("io")
			sub.RemoveAll("y")
			nd.Assert(zzOutsideIntact(parent), "C03/"+name+"/subview-write-escapes")
		}
	case 10, 11, 12:
		// copies: the escaping argument is either the source (p) or the
		// destination (q); the other one is a fixed inside path
		escSrc := nd.Bool("escape-is-source")
		src, dst := "x", p
		if escSrc {
			src, dst = p, "c"
		}
		if op == 11 && !escSrc {
			src = "d"
		}
		switch op {
		case 10:
			view.CopyFile(src, dst)
		case 11:
			if !escSrc {
				src = "d"
			}
			view.CopyDirectory(src, dst)
		default:
			view.Copy(src, dst)
		}
		nd.Assert(zzOutsideIntact(parent), "C03/"+name+"/copy-dest-escapes")
		if escSrc {
			nd.Assert(zzNoMarkerInside(parent, "i", 2), "C03/"+name+"/copy-source-escapes")
		}
	}
	nd.Reach("C03/" + name + "/end")
}

func ZZVerifC03Wrapper()    { zzConfine(kWrapper) }
func ZZVerifC03SubFS()      { zzConfine(kSubFS) }
func ZZVerifC03ROChild()    { zzConfine(kROChild) }
func ZZVerifC03CacheChild() { zzConfine(kCacheChild) }
func ZZVerifC03WrapWrap()   { zzConfine(kWrapperOfWrapper) }
func ZZVerifC03SubWrap()    { zzConfine(kSubOfWrapper) }
func ZZVerifC03DiskChild()  { zzConfine(kDiskChild) }
