//go:build verif

package varutil

import (
	"github.com/goatcms/goatcore/zzverif/nd"
)

// zzNorm is the reference normaliser (same as reftree.Norm; duplicated here
// because varutil cannot import the filesystem package).
func zzNorm(p string) (segs []string, climbs bool) {
	start := 0
	for i := 0; i <= len(p); i++ {
		if i < len(p) && p[i] != '/' {
			continue
		}
		seg := p[start:i]
		start = i + 1
		if seg == "" {
			continue
		}
		if seg == "." {
			continue
		}
		if seg == ".." {
			if len(segs) == 0 {
				climbs = true
			} else {
				segs = segs[:len(segs)-1]
			}
			continue
		}
		segs = append(segs, seg)
	}
	return segs, climbs
}

// ZZVerifC03Lex: for every byte string p up to the bound, ReduceAbsPath(p)
// errors iff the reference says the path climbs above the root; otherwise
// the result is exactly the reference's segments joined by '/', i.e. it has
// no empty, "." or ".." segment and no leading or trailing '/'.
func ZZVerifC03Lex() {
	p := nd.StringUpTo("p", nd.Param("N", 4))
	segs, climbs := zzNorm(p)
	got, err := ReduceAbsPath(p)
	if climbs {
		nd.Assert(err != nil, "C03/lex-climb-rejected")
		nd.Reach("C03/lex-climb")
		return
	}
	nd.Assert(err == nil, "C03/lex-accepts-inside")
	want := ""
	for i, s := range segs {
		if i > 0 {
			want += "/"
		}
		want += s
	}
	nd.Assert(got == want, "C03/lex-result")
	nd.Reach("C03/lex-end")
}

// ZZVerifC03Clean: CleanPath never yields a path with an inner "..", an
// empty or "." segment or a leading '/', and for a path that does not climb
// it agrees with the reference.
func ZZVerifC03Clean() {
	p := nd.StringUpTo("p", nd.Param("N", 4))
	segs, climbs := zzNorm(p)
	got := CleanPath(p)
	if !climbs {
		want := "."
		for i, s := range segs {
			if i == 0 {
				want = s
			} else {
				want += "/" + s
			}
		}
		if len(segs) == 0 {
			// the root is rendered "." (relative spelling) or "" (rooted spelling)
			nd.Assert(got == "." || got == "", "C03/clean-root")
		} else {
			nd.Assert(got == want, "C03/clean-result")
		}
	}
	nd.Reach("C03/clean-end")
}
