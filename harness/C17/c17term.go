//go:build verif

package termexec

import (
	"io"
	"strings"

	"github.com/goatcms/goatcore/app"
	"github.com/goatcms/goatcore/app/gio"
	"github.com/goatcms/goatcore/app/gio/bufferio"
	"github.com/goatcms/goatcore/app/scope"
	"github.com/goatcms/goatcore/app/terminal"
	"github.com/goatcms/goatcore/filesystem/filespace/memfs"
	"github.com/goatcms/goatcore/zzverif/nd"
)

// zzOneByte hands out one byte per Read (like a terminal).
type zzOneByte struct {
	s   string
	pos int
}

func (r *zzOneByte) Read(p []byte) (int, error) {
	if r.pos >= len(r.s) {
		return 0, io.EOF
	}
	p[0] = r.s[r.pos]
	r.pos++
	return 1, nil
}

// ZZVerifC17NextCommand: successive RunCommandFromReader calls on ONE reader
// run the successive commands of the script ("reading stops exactly at the
// command's newline so the next call returns the next command"), whether the
// reader delivers single bytes or everything at once; each command receives
// its own positional argument.
func ZZVerifC17NextCommand() {
	var order []string
	cmds := zzCommands{m: map[string]app.TerminalCommand{}}
	for _, name := range []string{"c0", "c1", "c2"} {
		name := name
		cmds.m[name] = terminal.NewCommand(terminal.CommandParams{
			Name: name,
			Callback: func(a app.App, ctx app.IOContext) error {
				var deps struct {
					Arg string `command:"?$1"`
				}
				ctx.Scope().InjectTo(&deps)
				order = append(order, name+":"+deps.Arg)
				return nil
			},
		})
	}
	arg := nd.String("arg", 1)
	c := arg[0]
	nd.Assume(nd.And(nd.And(c > ' ', c < 0x7f), nd.And(nd.And(c != '"', c != '\\'), nd.And(c != '<', c != '='))))
	script := "c0 " + arg + "\nc1 " + arg + "\nc2 " + arg
	if nd.Bool("final-newline") {
		script += "\n"
	}
	scp := scope.New(scope.Params{Name: "body"})
	cwd, _ := memfs.NewFilespace()
	buf := bufferio.NewBuffer()
	ctx := gio.NewIOContext(scp, gio.NewIO(gio.IOParams{
		In: gio.NewInput(strings.NewReader("")), Out: bufferio.NewBufferOutput(buf), Err: bufferio.NewBufferOutput(buf), CWD: cwd,
	}))
	rctx := NewRunCtx(RunCtxParams{Application: zzApp{}, Ctx: ctx, Commands: cmds})
	var reader interface {
		Read([]byte) (int, error)
	}
	if nd.Bool("one-byte-reader") {
		reader = &zzOneByte{s: script}
	} else {
		reader = strings.NewReader(script)
	}
	for i := 0; i < 3; i++ {
		_, err := RunCommandFromReader(rctx, reader)
		nd.Assert(err == nil, "C17/next-command-runs")
	}
	nd.Assert(len(order) == 3, "C17/next-command-count")
	if len(order) == 3 {
		nd.Assert(order[0] == "c0:"+arg && order[1] == "c1:"+arg && order[2] == "c2:"+arg, "C17/next-command-order-and-arguments")
	}
	nd.Reach("C17/next-command-end")
}
