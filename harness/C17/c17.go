//go:build verif

package varutil

import (
	"io"

	"github.com/goatcms/goatcore/zzverif/nd"
)

type zzByteReader struct {
	b   []byte
	pos int
}

func (r *zzByteReader) Read(p []byte) (int, error) {
	if r.pos >= len(r.b) {
		return 0, io.EOF
	}
	p[0] = r.b[r.pos]
	r.pos++
	return 1, nil
}

// ZZVerifC17Total: for every byte string up to the bound, ReadArguments
// neither panics nor loops, returns args xor error, and stops reading at the
// command's newline.
func ZZVerifC17Total() {
	s := nd.BytesUpTo("s", nd.Param("N", 3))
	r := &zzByteReader{b: s}
	args, eof, err := ReadArguments(r)
	nd.Assert(err == nil || args == nil, "C17/args-xor-error")
	if eof && err == nil {
		nd.Assert(r.pos == len(s), "C17/eof-means-all-read")
	}
	if err == nil && !eof {
		nd.Assert(r.pos > 0 && s[r.pos-1] == '\n', "C17/stops-at-newline")
		nd.Reach("C17/line-complete")
	}
	nd.Reach("C17/end")
}
