//go:build verif

package varutil

import (
	"io"

	"github.com/goatcms/goatcore/zzverif/nd"
)

type zzByteReader struct {
	b   []byte
	pos int
}

func (r *zzByteReader) Read(p []byte) (int, error) {
	if r.pos >= len(r.b) {
		return 0, io.EOF
	}
	p[0] = r.b[r.pos]
	r.pos++
	return 1, nil
}

// ZZVerifC17Total: for every byte string up to the bound, ReadArguments
// neither panics nor loops, returns args xor error, and stops reading at the
// command's newline, so that the next call returns the next command.
func ZZVerifC17Total() {
	s := nd.BytesUpTo("s", nd.Param("N", 3))
	r := &zzByteReader{b: s}
	args, eof, err := ReadArguments(r)
	nd.Assert(err == nil || args == nil, "C17/args-xor-error")
	if eof && err == nil {
		nd.Assert(r.pos == len(s), "C17/eof-means-all-read")
	}
	if err == nil && !eof {
		nd.Assert(r.pos > 0 && s[r.pos-1] == '\n', "C17/stops-at-newline")
		nd.Reach("C17/line-complete")
	}
	nd.Reach("C17/end")
}

func zzIsBlank(b byte) bool { return nd.Or(b == ' ', b == '\t') }

// zzRefSplit is the reference field splitter: maximal runs of non-blank bytes.
func zzRefSplit(s []byte) (want [][]byte) {
	var cur []byte
	in := false
	for _, b := range s {
		if zzIsBlank(b) {
			if in {
				want = append(want, cur)
				cur = nil
				in = false
			}
		} else {
			cur = append(cur, b)
			in = true
		}
	}
	if in {
		want = append(want, cur)
	}
	return want
}

func zzSameArgs(args []string, want [][]byte, label string) {
	nd.Assert(len(args) == len(want), label+"-count")
	if len(args) != len(want) {
		return
	}
	for i := range want {
		nd.Assert(args[i] == string(want[i]), label+"-bytes")
	}
}

// ZZVerifC17Words: words separated by blanks come back unchanged,
// byte-for-byte, for every byte value other than quote, backslash, '<' and
// newline (non-ASCII bytes included).
func ZZVerifC17Words() {
	s := nd.BytesUpTo("s", nd.Param("N", 3))
	ascii := true
	for _, b := range s {
		nd.Assume(nd.And(nd.And(b != '"', b != '\\'), nd.And(b != '<', b != '\n')))
		if b >= 0x80 {
			ascii = false
		}
	}
	args, eof, err := ReadArguments(&zzByteReader{b: s})
	nd.Assert(err == nil, "C17/words-no-error")
	nd.Assert(eof, "C17/words-eof")
	want := zzRefSplit(s)
	if ascii {
		zzSameArgs(args, want, "C17/words-ascii")
	} else {
		zzSameArgs(args, want, "C17/words-nonascii")
		nd.Reach("C17/words-nonascii")
	}
	nd.Reach("C17/words-end")
}

// ZZVerifC17LeadingBackslash: a backslash outside quotes escapes the next
// byte; an argument that starts with an escaped byte is a new argument (it is
// neither glued to the previous one nor a crash).
func ZZVerifC17LeadingBackslash() {
	pre := nd.BytesUpTo("pre", nd.Param("P", 1))
	for _, b := range pre {
		nd.Assume(nd.And(nd.And(b != '"', b != '\\'), nd.And(b != '<', b != '\n')))
		nd.Assume(nd.Not(zzIsBlank(b)))
		nd.Assume(b < 0x80)
	}
	c := nd.Byte("c")
	nd.Assume(nd.And(nd.And(c != '"', c != '\\'), nd.And(c != '<', c != '\n')))
	nd.Assume(nd.Not(zzIsBlank(c)))
	nd.Assume(c < 0x80)
	sep := nd.Bool("sep")
	var s []byte
	s = append(s, pre...)
	if sep {
		s = append(s, ' ')
	}
	s = append(s, '\\', c)
	args, _, err := ReadArguments(&zzByteReader{b: s})
	nd.Assert(err == nil, "C17/bs-no-error")
	if len(pre) == 0 {
		nd.Assert(len(args) == 1 && args[0] == string([]byte{c}), "C17/bs-first-arg")
	} else if sep {
		nd.Assert(len(args) == 2 && args[0] == string(pre) && args[1] == string([]byte{c}), "C17/bs-new-arg")
	} else {
		nd.Assert(len(args) == 1 && args[0] == string(pre)+string([]byte{c}), "C17/bs-inside-word")
	}
	nd.Reach("C17/bs-end")
}

// zzQuote is the reference quoting function: "…" with \" for a quote.
func zzQuote(a []byte) []byte {
	out := []byte{'"'}
	for _, b := range a {
		if b == '"' {
			out = append(out, '\\', '"')
		} else {
			out = append(out, b)
		}
	}
	return append(out, '"')
}

// ZZVerifC17Quoted: arguments rendered by the reference quoting function and
// joined by blanks are split back into the original arguments (blanks,
// newlines, '<', '=' preserved; escaped quotes unescaped). Backslashes in the
// content are outside the statement (no escape for them is defined).
func ZZVerifC17Quoted() {
	na := 1 + nd.Choose("nargs", nd.Param("A", 1))
	l := nd.Param("L", 2)
	var argv [][]byte
	var s []byte
	ascii := true
	for i := 0; i < na; i++ {
		a := nd.BytesUpTo("arg", l)
		for _, b := range a {
			nd.Assume(b != '\\')
			if b >= 0x80 {
				ascii = false
			}
		}
		argv = append(argv, a)
		if i > 0 {
			s = append(s, ' ')
		}
		s = append(s, zzQuote(a)...)
	}
	tail := nd.Bool("newline")
	if tail {
		s = append(s, '\n', 'x')
	}
	r := &zzByteReader{b: s}
	args, eof, err := ReadArguments(r)
	nd.Assert(err == nil, "C17/quoted-no-error")
	nd.Assert(eof == !tail, "C17/quoted-eof")
	if tail {
		nd.Assert(r.pos == len(s)-1, "C17/quoted-stops-at-newline")
	}
	if ascii {
		zzSameArgs(args, argv, "C17/quoted-ascii")
	} else {
		zzSameArgs(args, argv, "C17/quoted-nonascii")
	}
	nd.Reach("C17/quoted-end")
}

func zzHasAt(s []byte, i int, sub []byte) bool {
	if i+len(sub) > len(s) {
		return false
	}
	ok := true
	for j := range sub {
		ok = nd.And(ok, s[i+j] == sub[j])
	}
	return ok
}

func zzTrimBlanks(b []byte) []byte {
	lo, hi := 0, len(b)
	for lo < hi && zzIsBlank(b[lo]) {
		lo++
	}
	for hi > lo && zzIsBlank(b[hi-1]) {
		hi--
	}
	return b[lo:hi]
}

// ZZVerifC17Heredoc: k=<<M\nBODY\nM yields the single argument k=trim(BODY)
// for every body that does not contain the terminator line; a following
// newline ends the command.
func ZZVerifC17Heredoc() {
	body := nd.BytesUpTo("body", nd.Param("B", 2))
	marker := []byte("E")
	if nd.Choose("marker", 2) == 1 {
		marker = []byte("Eo")
	}
	term := append([]byte{'\n'}, marker...)
	full := append(append([]byte{}, body...), term...)
	// the terminator must not occur earlier than at the end
	for i := 0; i < len(body); i++ {
		nd.Assume(nd.Not(zzHasAt(full, i, term)))
	}
	ascii := true
	for _, b := range body {
		if b >= 0x80 {
			ascii = false
		}
	}
	var s []byte
	s = append(s, 'k', '=', '<', '<')
	s = append(s, marker...)
	s = append(s, '\n')
	s = append(s, full...)
	s = append(s, '\n', 'y')
	r := &zzByteReader{b: s}
	args, eof, err := ReadArguments(r)
	nd.Assert(err == nil, "C17/heredoc-no-error")
	nd.Assert(!eof, "C17/heredoc-not-eof")
	nd.Assert(r.pos == len(s)-1, "C17/heredoc-stops-at-newline")
	want := append([]byte("k="), zzTrimBlanks(body)...)
	if ascii {
		zzSameArgs(args, [][]byte{want}, "C17/heredoc-ascii")
	} else {
		zzSameArgs(args, [][]byte{want}, "C17/heredoc-nonascii")
	}
	nd.Reach("C17/heredoc-end")
}

// ZZVerifC17Continuation: backslash-newline continues the line; the command
// ends at the first unescaped newline and the next call returns the next
// command.
func ZZVerifC17Continuation() {
	w1 := nd.Bytes("w1", 1)
	w2 := nd.Bytes("w2", 1)
	for _, b := range append(append([]byte{}, w1...), w2...) {
		nd.Assume(nd.And(nd.And(b != '"', b != '\\'), nd.And(b != '<', b != '\n')))
		nd.Assume(nd.Not(zzIsBlank(b)))
		nd.Assume(b < 0x80)
	}
	var s []byte
	s = append(s, w1...)
	s = append(s, ' ', '\\', '\n')
	s = append(s, w2...)
	s = append(s, '\n')
	s = append(s, 'n', 'x', 't')
	r := &zzByteReader{b: s}
	args, eof, err := ReadArguments(r)
	nd.Assert(err == nil && !eof, "C17/cont-ok")
	nd.Assert(len(args) == 2 && args[0] == string(w1) && args[1] == string(w2), "C17/cont-args")
	args2, eof2, err2 := ReadArguments(r)
	nd.Assert(err2 == nil && eof2, "C17/cont-next-ok")
	nd.Assert(len(args2) == 1 && args2[0] == "nxt", "C17/cont-next-args")
	nd.Reach("C17/cont-end")
}

// ZZVerifC17LineEnd: for every byte string without quotes and heredoc markers
// the command ends exactly at the first newline that is not escaped by a
// backslash (a backslash escapes the one byte that follows it; an escaped
// newline continues the line): the first call stops right behind that
// newline, so the next call starts at the next command; without such a
// newline the whole input is one (last) command.
func ZZVerifC17LineEnd() {
	s := nd.BytesUpTo("s", nd.Param("E", 4))
	for _, b := range s {
		nd.Assume(nd.And(b != '"', b != '<'))
	}
	end := -1
	esc := false
	for i, b := range s {
		if esc {
			esc = false
			continue
		}
		if b == '\\' {
			esc = true
			continue
		}
		if b == '\n' {
			end = i
			break
		}
	}
	r := &zzByteReader{b: s}
	_, eof, err := ReadArguments(r)
	nd.Assert(err == nil, "C17/lineend-no-error")
	if end >= 0 {
		nd.Assert(!eof, "C17/lineend-command-ends-at-unescaped-newline")
		nd.Assert(r.pos == end+1, "C17/lineend-stops-right-behind-the-newline")
	} else {
		nd.Assert(eof && r.pos == len(s), "C17/lineend-without-newline-reads-all")
	}
	nd.Reach("C17/lineend-end")
}

// ZZVerifC17Split: the string wrapper SplitArguments is the reader applied to
// the string - for every byte string the same words, the same end-of-input
// flag and the same error-ness (the wrapper is the entry InjectString and
// RunString use).
func ZZVerifC17Split() {
	s := nd.BytesUpTo("s", nd.Param("SN", 3))
	a1, e1, err1 := SplitArguments(string(s))
	a2, e2, err2 := ReadArguments(&zzByteReader{b: s})
	nd.Assert((err1 == nil) == (err2 == nil), "C17/split-same-error")
	if err1 == nil && err2 == nil {
		nd.Assert(e1 == e2, "C17/split-same-eof")
		nd.Assert(len(a1) == len(a2), "C17/split-same-words-count")
		if len(a1) == len(a2) {
			for i := range a1 {
				nd.Assert(a1[i] == a2[i], "C17/split-same-words-bytes")
			}
		}
	}
	nd.Reach("C17/split-end")
}
