//go:build verif

package argscope

import (
	"strconv"

	"github.com/goatcms/goatcore/app/scope/datascope"
	"github.com/goatcms/goatcore/zzverif/nd"
)

// ZZVerifC17Inject: named arguments (k=v, -k=v, --k=v) are mapped to key k,
// positional ones to $0,$1,... in order, and everything after a bare "--" is
// kept aside under "--".
func ZZVerifC17Inject() {
	n := 1 + nd.Choose("nargs", nd.Param("A", 3))
	var args []string
	type exp struct {
		key, val string
	}
	var want []exp
	var rest []string
	anon := 0
	afterSep := false
	for i := 0; i < n; i++ {
		kind := nd.Choose("kind", 4)
		switch {
		case afterSep:
			a := nd.StringUpTo("tail", 2)
			args = append(args, a)
			rest = append(rest, a)
		case kind == 3:
			args = append(args, "--")
			afterSep = true
		case kind == 0: // positional: any bytes without '=', not the separator
			a := nd.StringUpTo("pos", 2)
			for j := 0; j < len(a); j++ {
				nd.Assume(a[j] != '=')
			}
			nd.Assume(a != "--")
			args = append(args, a)
			want = append(want, exp{"$" + strconv.Itoa(anon), a})
			anon++
		default: // named, with 0, 1 or 2 leading dashes
			k := nd.String("key", 1)
			nd.Assume(nd.And(k != "=", k != "-"))
			v := nd.StringUpTo("val", 2)
			dashes := []string{"", "-", "--"}[kind-1+nd.Choose("dash", 2)]
			args = append(args, dashes+k+"="+v)
			want = append(want, exp{k, v})
		}
	}
	scp := datascope.New(map[interface{}]interface{}{})
	err := InjectArgs(scp, args...)
	nd.Assert(err == nil, "C17/inject-no-error")
	// later definitions of the same key win; check the last one per key
	for i, w := range want {
		overridden := false
		for _, later := range want[i+1:] {
			if later.key == w.key {
				overridden = true
			}
		}
		if overridden {
			continue
		}
		got, ok := scp.Value(w.key).(string)
		nd.Assert(ok && got == w.val, "C17/inject-key-value")
	}
	sep, ok := scp.Value("--").([]string)
	nd.Assert(ok || len(rest) == 0, "C17/inject-separated-present")
	if ok {
		nd.Assert(len(sep) == len(rest), "C17/inject-separated-count")
		if len(sep) == len(rest) {
			for i := range rest {
				nd.Assert(sep[i] == rest[i], "C17/inject-separated-values")
			}
		}
	}
	nd.Reach("C17/inject-end")
}
