//go:build verif

package datascope

import (
	"sync"

	"github.com/goatcms/goatcore/app"
	"github.com/goatcms/goatcore/zzverif/nd"
)

// zzNil marks an explicit nil in the reference maps (values are one byte).
const zzNil = "<nil>"

// ZZVerifC13Overlay: on a parent-child chain of depth D, any history of
// Set/Value steps on symbolic levels with symbolic keys behaves like a list of
// maps: a level answers with its own value if it has one, otherwise with the
// nearest ancestor's current value; a Set on a level never changes an
// ancestor.
func ZZVerifC13Overlay() {
	d := 1 + nd.Choose("depth", nd.Param("D", 2))
	levels := make([]app.DataScope, d)
	ref := make([]map[string]string, d) // reference: concrete keys "k0","k1"
	levels[0] = New(make(map[interface{}]interface{}))
	ref[0] = map[string]string{}
	for i := 1; i < d; i++ {
		levels[i] = NewChild(levels[i-1], make(map[interface{}]interface{}))
		ref[i] = map[string]string{}
	}
	keys := []string{nd.String("key", 1), nd.String("key", 1)}
	nd.Assume(keys[0] != keys[1])
	steps := nd.Param("S", 3)
	nested := nd.Bool("read-through-nested-locker")
	for s := 0; s < steps; s++ {
		lv := nd.Choose("level", d)
		k := nd.Choose("keyidx", 2)
		// a step sets a string or an explicit nil (a level then has a value
		// for the key: nil), directly or inside a locked section
		if set := nd.Choose("set", 3); set != 0 {
			var v interface{}
			rv := zzNil
			if set == 1 {
				sv := nd.String("val", 1)
				v, rv = sv, sv
			}
			if nd.Bool("set-under-lock") {
				lk := levels[lv].LockData()
				lk.SetValue(keys[k], v)
				nd.Assert(lk.Commit() == nil, "C13/commit-ok")
			} else {
				levels[lv].SetValue(keys[k], v)
			}
			ref[lv][[]string{"k0", "k1"}[k]] = rv
		}
		// observe every level and key, directly and through the level's lock
		for l := 0; l < d; l++ {
			for kk := 0; kk < 2; kk++ {
				got := levels[l].Value(keys[kk])
				lk := levels[l].LockData()
				gotLocked := lk.Value(keys[kk])
				if nested {
					// a locker taken from the locker sees the same overlay
					lk2 := lk.LockData()
					gotLocked = lk2.Value(keys[kk])
					lk2.Commit()
				}
				lk.Commit()
				want, has := "", false
				for a := l; a >= 0; a-- {
					if v, ok := ref[a][[]string{"k0", "k1"}[kk]]; ok {
						want, has = v, true
						break
					}
				}
				if !has || want == zzNil {
					nd.Assert(got == nil, "C13/overlay-missing")
					nd.Assert(gotLocked == nil, "C13/overlay-missing-under-lock")
				} else {
					gs, ok := got.(string)
					nd.Assert(ok && gs == want, "C13/overlay-value")
					gl, ok := gotLocked.(string)
					nd.Assert(ok && gl == want, "C13/overlay-value-under-lock")
				}
			}
		}
	}
	nd.Reach("C13/overlay-end")
}

// ZZVerifC13Lock: G goroutines perform read-modify-write increments under
// LockData()/Commit() on one scope (plain or child) while another goroutine
// does plain reads and writes of another key; no increment is lost and no
// plain access takes effect inside a locked section.
func ZZVerifC13Lock() {
	nd.Schedule(nd.Param("P", 2))
	nd.Races()
	var scp app.DataScope
	if nd.Choose("kind", 2) == 0 {
		scp = New(make(map[interface{}]interface{}))
	} else {
		scp = NewChild(New(make(map[interface{}]interface{})), make(map[interface{}]interface{}))
	}
	scp.SetValue("n", 0)
	g := nd.Param("G", 2)
	var wg sync.WaitGroup
	for i := 0; i < g; i++ {
		wg.Add(1)
		go func() {
			defer wg.Done()
			locker := scp.LockData()
			n := locker.Value("n").(int)
			marker := locker.Value("m")
			nd.Yield()
			// nobody else's write may land between our read and our write
			nd.Assert(locker.Value("m") == marker, "C13/plain-write-inside-locked-section")
			locker.SetValue("n", n+1)
			locker.Commit()
		}()
	}
	wg.Add(1)
	go func() {
		defer wg.Done()
		scp.SetValue("m", 1)
		v := scp.Value("n").(int)
		nd.Assert(v >= 0 && v <= g, "C13/plain-read-value")
	}()
	wg.Wait()
	nd.Assert(scp.Value("n").(int) == g, "C13/lost-update")
	nd.Reach("C13/lock-end")
}

// ZZVerifC13NestedSection: a locker is itself a lockable data scope: while a
// section nested in it is open (LockData on the locker ... Commit) another
// goroutine's read or write through the same locker does not take effect in
// between - a reader never sees the section's intermediate value and a
// read-modify-write done inside the section is not lost.
func ZZVerifC13NestedSection() {
	nd.Schedule(nd.Param("NP", 2))
	nd.Races()
	var scp app.DataScope
	if nd.Bool("child") {
		scp = NewChild(New(make(map[interface{}]interface{})), make(map[interface{}]interface{}))
	} else {
		scp = New(make(map[interface{}]interface{}))
	}
	scp.SetValue("k", "old")
	outer := scp.LockData()
	var wg sync.WaitGroup
	wg.Add(2)
	go func() {
		defer wg.Done()
		nested := outer.LockData()
		nested.SetValue("k", "tmp")
		nd.Yield()
		nested.SetValue("k", "new")
		nested.Commit()
	}()
	var seen interface{}
	writes := nd.Bool("other-goroutine-writes")
	go func() {
		defer wg.Done()
		if writes {
			outer.SetValue("k", "w")
		} else {
			seen = outer.Value("k")
		}
	}()
	wg.Wait()
	final := outer.Value("k")
	if writes {
		nd.Assert(final == "new" || final == "w", "C13/nested-section-final-value")
	} else {
		nd.Assert(seen == "old" || seen == "new", "C13/nested-section-intermediate-value-seen")
		nd.Assert(final == "new", "C13/nested-section-final-value")
	}
	nd.Assert(outer.Commit() == nil, "C13/commit-ok")
	nd.Reach("C13/nested-section-end")
}

// ZZVerifC13ChainLock: the holder of the PARENT's data lock works on a child
// scope (which has a lock of its own) while another goroutine reads through
// that child a key the child does not hold (the read falls through to the
// locked parent): nobody blocks for ever, the reader sees the parent's value
// from before or after the whole section, never the intermediate one.
func ZZVerifC13ChainLock() {
	nd.Schedule(nd.Param("CP", 2))
	nd.Races()
	parent := New(make(map[interface{}]interface{}))
	parent.SetValue("k", "old")
	child := NewChild(parent, make(map[interface{}]interface{}))
	var wg sync.WaitGroup
	var seen interface{}
	wg.Add(2)
	go func() {
		defer wg.Done()
		lk := parent.LockData()
		lk.SetValue("k", "tmp")
		child.SetValue("c", "x") // the child's own lock, taken inside the section
		lk.SetValue("k", "new")
		nd.Assert(lk.Commit() == nil, "C13/chainlock-commit")
	}()
	go func() {
		defer wg.Done()
		seen = child.Value("k")
	}()
	wg.Wait()
	nd.Assert(seen == "old" || seen == "new", "C13/chainlock-reader-sees-no-intermediate-value")
	nd.Assert(child.Value("c") == "x" && child.Value("k") == "new", "C13/chainlock-final-state")
	nd.Reach("C13/chainlock-end")
}
