//go:build verif

package envs

import (
	"sync"

	"github.com/goatcms/goatcore/app/modules/commonm/commservices"
	"github.com/goatcms/goatcore/app/scope"
	"github.com/goatcms/goatcore/zzverif/nd"
)

// ZZVerifC13EnvsGetOrCreate: two goroutines ask the environments unit for the
// scope's container at the same time (on the scope itself or on a child of
// it); both get the same instance, and what one of them stores is seen by
// the other (the get-or-create is one locked section).
func ZZVerifC13EnvsGetOrCreate() {
	nd.Schedule(nd.Param("P", 2))
	nd.Races()
	var scp = scope.New(scope.Params{Name: "s"})
	u := &Unit{}
	got := make([]commservices.Environments, 2)
	errs := make([]error, 2)
	var wg sync.WaitGroup
	for i := 0; i < 2; i++ {
		wg.Add(1)
		go func(i int) {
			defer wg.Done()
			got[i], errs[i] = u.Envs(scp)
		}(i)
	}
	wg.Wait()
	nd.Assert(errs[0] == nil && errs[1] == nil, "C13/envs-getorcreate-ok")
	nd.Assert(got[0] != nil && got[0] == got[1], "C13/envs-getorcreate-one-instance")
	again, _ := u.Envs(scp)
	nd.Assert(again == got[0], "C13/envs-getorcreate-stable")
	nd.Reach("C13/envs-getorcreate-end")
}
