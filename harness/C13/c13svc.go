//go:build verif

package waits

import (
	"sync"

	"github.com/goatcms/goatcore/app/modules/commonm/commservices"
	"github.com/goatcms/goatcore/app/scope"
	"github.com/goatcms/goatcore/zzverif/nd"
)

// ZZVerifC13GetOrCreate: two goroutines ask the wait-manager service for the
// scope's manager at the same time; both get the same instance.
func ZZVerifC13GetOrCreate() {
	nd.Schedule(nd.Param("P", 2))
	nd.Races()
	scp := scope.New(scope.Params{Name: "s"})
	m := NewWaitManager()
	got := make([]commservices.ScopeWaitManager, 2)
	var wg sync.WaitGroup
	for i := 0; i < 2; i++ {
		wg.Add(1)
		go func(i int) {
			defer wg.Done()
			got[i], _ = m.ForScope(scp)
		}(i)
	}
	wg.Wait()
	nd.Assert(got[0] != nil && got[0] == got[1], "C13/getorcreate-one-instance")
	nd.Reach("C13/getorcreate-end")
}
