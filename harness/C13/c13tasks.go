//go:build verif

package tasks

import (
	"sync"

	"github.com/goatcms/goatcore/app/modules/pipelinem/pipservices"
	"github.com/goatcms/goatcore/app/scope"
	"github.com/goatcms/goatcore/zzverif/nd"
)

// ZZVerifC13TasksGetOrCreate: two goroutines ask the tasks unit for the
// scope's task manager at the same time; both get the same instance.
func ZZVerifC13TasksGetOrCreate() {
	nd.Schedule(nd.Param("P", 2))
	nd.Races()
	scp := scope.New(scope.Params{Name: "s"})
	u := NewUnit(UnitDeps{})
	got := make([]pipservices.TasksManager, 2)
	errs := make([]error, 2)
	var wg sync.WaitGroup
	for i := 0; i < 2; i++ {
		wg.Add(1)
		go func(i int) {
			defer wg.Done()
			got[i], errs[i] = u.FromScope(scp)
		}(i)
	}
	wg.Wait()
	nd.Assert(errs[0] == nil && errs[1] == nil, "C13/tasks-getorcreate-ok")
	nd.Assert(got[0] != nil && got[0] == got[1], "C13/tasks-getorcreate-one-instance")
	again, _ := u.FromScope(scp)
	nd.Assert(again == got[0], "C13/tasks-getorcreate-stable")
	nd.Reach("C13/tasks-getorcreate-end")
}
