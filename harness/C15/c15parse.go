//go:build verif

package pipc

import (
	"github.com/goatcms/goatcore/app/modules/commonm/commservices"
	"github.com/goatcms/goatcore/zzverif/nd"
)

func zzIsIdent(s string) bool {
	if len(s) == 0 {
		return false
	}
	ok := true
	for i := 0; i < len(s); i++ {
		c := s[i]
		letter := nd.Or(nd.Or(nd.And(c >= 'a', c <= 'z'), nd.And(c >= 'A', c <= 'Z')), c == '_')
		digit := nd.And(c >= '0', c <= '9')
		if i == 0 {
			ok = nd.And(ok, letter)
		} else {
			ok = nd.And(ok, nd.Or(letter, digit))
		}
	}
	return ok
}

func zzTrim(s string) string {
	lo, hi := 0, len(s)
	isCut := func(c byte) bool { return nd.Or(nd.Or(c == '\n', c == '\t'), c == ' ') }
	for lo < hi && isCut(s[lo]) {
		lo++
	}
	for hi > lo && isCut(s[hi-1]) {
		hi--
	}
	return s[lo:hi]
}

// ZZVerifC15Parse: a comma separated lock list is parsed into the lock map:
// every row (trimmed) must be an identifier, optionally prefixed with '@';
// plain names are put under the namespace, '@' names stay global, all with the
// requested mode; any other row is refused and (then) nothing is claimed
// about the map.
func ZZVerifC15Parse() {
	keys := nd.StringUpTo("keys", nd.Param("N", 4))
	mode := nd.Bool("mode")
	dest := map[string]bool{}
	// pip:run parses the read list first and the write list second into one
	// map: a resource named in both must end up with write access
	if nd.Bool("named-in-read-list-before") {
		nd.Assume(mode == commservices.LockRW)
		markBoolMapForNamespace(keys, "ns:", commservices.LockR, dest)
	}
	err := markBoolMapForNamespace(keys, "ns:", mode, dest)
	// reference
	var rows []string
	start := 0
	for i := 0; i <= len(keys); i++ {
		if i < len(keys) && keys[i] != ',' {
			continue
		}
		rows = append(rows, zzTrim(keys[start:i]))
		start = i + 1
	}
	valid := true
	want := map[string]bool{}
	for _, r := range rows {
		name, global := r, false
		if len(r) > 0 && r[0] == '@' {
			name, global = r[1:], true
		}
		if !zzIsIdent(name) {
			valid = false
			break
		}
		if global {
			want[r] = true
		} else {
			want["ns:"+r] = true
		}
	}
	nd.Assert((err == nil) == valid, "C15/parse-accepts-exactly-identifiers")
	if err == nil && valid {
		nd.Assert(len(dest) == len(want), "C15/parse-entry-count")
		for k := range want {
			v, ok := dest[k]
			nd.Assert(ok && v == mode, "C15/parse-entry-mode")
		}
		nd.Reach("C15/parse-accepted")
	}
	nd.Reach("C15/parse-end")
}
