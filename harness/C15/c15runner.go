//go:build verif

package runner

import (
	"strings"
	"sync"

	"github.com/goatcms/goatcore/app"
	"github.com/goatcms/goatcore/app/gio"
	"github.com/goatcms/goatcore/app/gio/bufferio"
	"github.com/goatcms/goatcore/app/modules/commonm/commservices"
	"github.com/goatcms/goatcore/app/modules/commonm/commservices/mutex"
	"github.com/goatcms/goatcore/app/modules/pipelinem/pipservices"
	"github.com/goatcms/goatcore/app/modules/pipelinem/pipservices/namespaces"
	"github.com/goatcms/goatcore/app/modules/pipelinem/pipservices/tasks"
	"github.com/goatcms/goatcore/app/scope"
	"github.com/goatcms/goatcore/filesystem"
	"github.com/goatcms/goatcore/filesystem/filespace/memfs"
	"github.com/goatcms/goatcore/zzverif/nd"
)

// ZZVerifC15RunnerLocks: the runner's use of the named locks. Two tasks with
// symbolic lock maps over the resources q and r, the second waiting for the
// first, and an outside holder of q that lets go later: under every schedule
// with at most P preemptions both tasks get their turn (a task that kept its
// resources while waiting for its prerequisite would deadlock), and two
// bodies are inside together only if every common resource is read-only for
// both.
func ZZVerifC15RunnerLocks() { zzRunnerLocks("C15") }

// ZZVerifC14Locks: the same scenario for C14's clause "every accepted
// submission eventually finishes": tasks with wait lists AND resource locks.
func ZZVerifC14Locks() { zzRunnerLocks("C14") }

func zzRunnerLocks(prop string) {
	nd.Schedule(nd.Param("RP", 1))
	nd.Races()
	trace := &zzTrace{}
	sm := mutex.NewSharedMutex()
	boxes := &zzSandboxes{boxes: map[string]pipservices.Sandbox{}}
	names := []string{"t0", "t1"}
	maps := make([]commservices.LockMap, 2)
	t0Fails := nd.Bool("first-body-fails")
	for i := range names {
		maps[i] = commservices.LockMap{}
		for _, res := range []string{"q", "r"} {
			if nd.Bool("has-" + res) {
				maps[i][res] = nd.Bool("rw-" + res)
			}
		}
		// the first task's body may fail (the second one, which waits for it,
		// is then never executed)
		boxes.boxes["sb"+names[i]] = &zzSandbox{id: names[i], trace: trace, fail: i == 0 && t0Fails}
	}
	unit := tasks.NewUnit(tasks.UnitDeps{NamespacesUnit: namespaces.NewUnit()})
	r := NewRunner(Deps{SandboxesManager: boxes, TasksUnit: unit, SharedMutex: sm})
	scp := scope.New(scope.Params{Name: "root"})
	cwd, _ := memfs.NewFilespace()
	buf := bufferio.NewBuffer()
	mk := func(i int, wait []string) pipservices.Pip {
		return pipservices.Pip{
			Name: names[i],
			Context: pipservices.PipContext{
				In: gio.NewInput(strings.NewReader("")), Out: bufferio.NewBufferOutput(buf), Err: bufferio.NewBufferOutput(buf),
				Scope: scp, CWD: filesystem.Filespace(cwd),
			},
			Namespaces: namespaces.NewNamespaces(pipservices.NamasepacesParams{}),
			Sandbox:    "sb" + names[i],
			Lock:       maps[i],
			Wait:       wait,
		}
	}
	// the outside holder has q for writing before anything is submitted
	outside := sm.Lock(commservices.LockMap{"q": commservices.LockRW})
	nd.Assert(r.Run(mk(0, nil)) == nil, prop+"/runner-accepts")
	// (the second submission may be refused only because the first task has
	// failed the scope in the meantime: a scope that is done refuses new tasks)
	nd.Assert(r.Run(mk(1, []string{"t0"})) == nil || t0Fails, prop+"/runner-accepts")
	var wg sync.WaitGroup
	wg.Add(1)
	go func() {
		defer wg.Done()
		nd.Pause()
		outside.Unlock()
	}()
	mgr, err := unit.FromScope(scp)
	nd.Assert(err == nil, prop+"/runner-manager")
	nd.Assert((mgr.Wait() != nil) == t0Fails, prop+"/runner-all-tasks-finish")
	wg.Wait()
	b0, e0, b1 := trace.index("bt0"), trace.index("et0"), trace.index("bt1")
	if t0Fails {
		nd.Assert(b0 >= 0 && e0 > b0 && b1 < 0, prop+"/runner-dependant-of-failed-task-not-run")
	} else {
		nd.Assert(b0 >= 0 && e0 > b0 && b1 > e0, prop+"/runner-both-bodies-ran-in-wait-order")
	}
	// whatever happened, every resource is free again afterwards
	sm.Lock(commservices.LockMap{"q": commservices.LockRW, "r": commservices.LockRW}).Unlock()
	nd.Reach(prop+"/runner-end")
}

// zzNsProbe is a sandbox stub that records the namespaces its task's own
// scope carries (what the commands nested in the task's body will see).
type zzNsProbe struct {
	unit       pipservices.NamespacesUnit
	task, lock string
	ran        bool
}

func (s *zzNsProbe) Run(ctx app.IOContext) error {
	ns, err := s.unit.FromScope(ctx.Scope(), namespaces.NewNamespaces(pipservices.NamasepacesParams{Task: "?", Lock: "?"}))
	if err == nil {
		s.task, s.lock = ns.Task(), ns.Lock()
	}
	s.ran = true
	return nil
}

// ZZVerifC15TaskNamespaces: a task's own scope keeps the LOCK namespace of
// the scope it was submitted with (and extends the task namespace by its
// name): a command nested in the task's body that names resource x locks the
// same key as a task of the surrounding scope that names x - so they exclude
// each other.
func ZZVerifC15TaskNamespaces() {
	lock := []string{"", "L"}[nd.Choose("lock-namespace", 2)]
	ptask := []string{"", "p"}[nd.Choose("task-namespace", 2)]
	nsUnit := namespaces.NewUnit()
	probe := &zzNsProbe{unit: nsUnit}
	boxes := &zzSandboxes{boxes: map[string]pipservices.Sandbox{"sb": probe}}
	unit := tasks.NewUnit(tasks.UnitDeps{NamespacesUnit: nsUnit})
	r := NewRunner(Deps{SandboxesManager: boxes, TasksUnit: unit, SharedMutex: mutex.NewSharedMutex()})
	scp := scope.New(scope.Params{Name: "root"})
	cwd, _ := memfs.NewFilespace()
	buf := bufferio.NewBuffer()
	nd.Assert(r.Run(pipservices.Pip{
		Name: "t",
		Context: pipservices.PipContext{
			In: gio.NewInput(strings.NewReader("")), Out: bufferio.NewBufferOutput(buf), Err: bufferio.NewBufferOutput(buf),
			Scope: scp, CWD: filesystem.Filespace(cwd),
		},
		Namespaces: namespaces.NewNamespaces(pipservices.NamasepacesParams{Task: ptask, Lock: lock}),
		Sandbox:    "sb",
		Lock:       commservices.LockMap{},
	}) == nil, "C15/task-namespaces/accepted")
	mgr, err := unit.FromScope(scp)
	nd.Assert(err == nil, "C15/task-namespaces/manager")
	nd.Assert(mgr.Wait() == nil, "C15/task-namespaces/wait")
	nd.Assert(probe.ran, "C15/task-namespaces/body-ran")
	nd.Assert(probe.lock == lock, "C15/task-namespaces/lock-namespace-inherited")
	want := "t"
	if ptask != "" {
		want = ptask + ":t"
	}
	nd.Assert(probe.task == want, "C15/task-namespaces/task-namespace-extended")
	nd.Reach("C15/task-namespaces/end")
}
