//go:build verif

package mutex

import (
	"sync/atomic"
	"sync"

	"github.com/goatcms/goatcore/app/modules/commonm/commservices"
	"github.com/goatcms/goatcore/zzverif/nd"
)

// ZZVerifC15Locks: H holders with arbitrary lock maps over a pool of
// resource names (presence, read/write mode and the names themselves are
// symbolic, so the sort order is solver-decided). For every interleaving
// with at most P preemptions and every map iteration order: two holders are
// inside their critical sections at the same time only if every common
// resource was requested for reading by both; nobody deadlocks; everybody
// gets in.
func ZZVerifC15Locks() { zzLocks(nd.Param("P", 2), nd.Param("H", 2), nd.Param("R", 2)) }

// ZZVerifC15FirstUse: the same with ONE resource name that nobody has used
// before and a deeper preemption bound: the holders' very first requests for
// a name meet inside the look-up/creation of its lock.
func ZZVerifC15FirstUse() { zzLocks(nd.Param("FP", 2), nd.Param("FH", 2), 1) }

func zzLocks(pb, h, r int) {
	nd.Schedule(pb)
	nd.Races()
	nd.MapOrder()
	// resource names: distinct symbolic 1-byte strings
	names := make([]string, r)
	for i := range names {
		names[i] = nd.String("name", 1)
		for j := 0; j < i; j++ {
			nd.Assume(names[i] != names[j])
		}
	}
	// has[k][i], rw[k][i]
	has := make([][]bool, h)
	rw := make([][]bool, h)
	maps := make([]commservices.LockMap, h)
	for k := 0; k < h; k++ {
		has[k] = make([]bool, r)
		rw[k] = make([]bool, r)
		maps[k] = commservices.LockMap{}
		for i := 0; i < r; i++ {
			has[k][i] = nd.Bool("has")
			rw[k][i] = nd.Bool("rw")
			if has[k][i] {
				maps[k][names[i]] = rw[k][i]
			}
		}
	}
	sm := NewSharedMutex()
	inside := make([]int32, h) // occupancy probe, accessed atomically
	var wg sync.WaitGroup
	for k := 0; k < h; k++ {
		wg.Add(1)
		go func(k int) {
			defer wg.Done()
			handler := sm.Lock(maps[k])
			atomic.StoreInt32(&inside[k], 1)
			nd.Yield()
			for o := 0; o < h; o++ {
				if o == k || atomic.LoadInt32(&inside[o]) == 0 {
					continue
				}
				// both inside: every common resource must be read-only for both
				for i := 0; i < r; i++ {
					if has[k][i] && has[o][i] {
						nd.Assert(!rw[k][i] && !rw[o][i], "C15/exclusion")
						nd.Reach("C15/shared-read")
					}
				}
				nd.Reach("C15/both-inside")
			}
			nd.Yield()
			atomic.StoreInt32(&inside[k], 0)
			handler.Unlock()
		}(k)
	}
	wg.Wait()
	nd.Reach("C15/end")
}

// ZZVerifC15Disjoint: holders whose maps are disjoint or overlap only in
// read mode are not serialised by the lock: with the first holder parked
// inside its critical section the second one still gets in.
func ZZVerifC15Disjoint() {
	r := 2
	names := []string{"a", "b"}
	m1, m2 := commservices.LockMap{}, commservices.LockMap{}
	for i := 0; i < r; i++ {
		h1, w1 := nd.Bool("has1"), nd.Bool("rw1")
		h2, w2 := nd.Bool("has2"), nd.Bool("rw2")
		// compatible: not both present unless both read
		nd.Assume(nd.Or(nd.Not(nd.And(h1, h2)), nd.And(nd.Not(w1), nd.Not(w2))))
		if h1 {
			m1[names[i]] = w1
		}
		if h2 {
			m2[names[i]] = w2
		}
	}
	sm := NewSharedMutex()
	h1 := sm.Lock(m1)
	done := false
	var wg sync.WaitGroup
	wg.Add(1)
	go func() {
		defer wg.Done()
		h2 := sm.Lock(m2)
		done = true
		h2.Unlock()
	}()
	nd.Quiesce()
	nd.Assert(done, "C15/compatible-holders-not-serialised")
	h1.Unlock()
	wg.Wait()
	nd.Reach("C15/disjoint-end")
}
