//go:build verif

package pipc

import (
	"strings"

	"github.com/goatcms/goatcore/app/gio"
	"github.com/goatcms/goatcore/app/gio/bufferio"
	"github.com/goatcms/goatcore/app/modules/commonm/commservices"
	"github.com/goatcms/goatcore/app/modules/pipelinem/pipservices"
	"github.com/goatcms/goatcore/app/modules/pipelinem/pipservices/namespaces"
	"github.com/goatcms/goatcore/app/dependency"
	"github.com/goatcms/goatcore/app/scope"
	"github.com/goatcms/goatcore/app/scope/datascope"
	"github.com/goatcms/goatcore/filesystem/filespace/memfs"
	"github.com/goatcms/goatcore/zzverif/nd"
)

// zzCapture is a runner stub that records the submitted pipeline.
type zzCapture struct{ got []pipservices.Pip }

func (c *zzCapture) Run(p pipservices.Pip) error { c.got = append(c.got, p); return nil }

// zzRunOnce runs pip:run in a scope whose namespaces are (task, lock) and
// returns the lock map of the submitted task.
func zzRunOnce(task, lock, rlock, wlock string) (commservices.LockMap, error) {
	capt := &zzCapture{}
	nsUnit := namespaces.NewUnit()
	dp := dependency.NewProvider("dependency")
	nd.Assume(dp.Set("PipRunner", pipservices.Runner(capt)) == nil)
	nd.Assume(dp.Set("PipNamespacesUnit", pipservices.NamespacesUnit(nsUnit)) == nil)
	a := zzApp{dp: dp}
	args := datascope.New(map[interface{}]interface{}{})
	args.SetValue("name", "c")
	args.SetValue("body", "x")
	if rlock != "" {
		args.SetValue("rlock", rlock)
	}
	if wlock != "" {
		args.SetValue("wlock", wlock)
	}
	scp := scope.New(scope.Params{Name: "s", Injector: datascope.NewInjector("command", args)})
	nd.Assume(nsUnit.Define(scp, namespaces.NewNamespaces(pipservices.NamasepacesParams{Task: task, Lock: lock})) == nil)
	cwd, _ := memfs.NewFilespace()
	buf := bufferio.NewBuffer()
	ctx := gio.NewIOContext(scp, gio.NewIO(gio.IOParams{In: gio.NewInput(strings.NewReader("")), Out: bufferio.NewBufferOutput(buf), Err: bufferio.NewBufferOutput(buf), CWD: cwd}))
	if err := Run(a, ctx); err != nil {
		return nil, err
	}
	nd.Assert(len(capt.got) == 1, "C15/run-submits-one-task")
	if len(capt.got) != 1 {
		return nil, nil
	}
	// the task's own namespaces (what commands nested in its body will see)
	// keep the LOCK namespace of the scope the task was started in
	nd.Assert(capt.got[0].Namespaces != nil && capt.got[0].Namespaces.Lock() == lock, "C15/run-task-inherits-lock-namespace")
	return capt.got[0].Lock, nil
}

// ZZVerifC15RunLockNames: the resource names a pip:run task locks depend on
// the resource's name and the LOCK namespace of its scope only - not on the
// task namespace: two tasks nested under different parent tasks that name
// the same resource get the same lock key (so they exclude each other), with
// the requested modes; '@' names are global.
func ZZVerifC15RunLockNames() {
	name := nd.String("name", 1)
	lockNS := []string{"", "L"}[nd.Choose("lock-namespace", 2)]
	global := nd.Bool("global-name")
	res := name
	if global {
		res = "@" + name
	}
	var rl, wl string
	write := nd.Bool("write")
	if write {
		wl = res
	} else {
		rl = res
	}
	m1, e1 := zzRunOnce("p1", lockNS, rl, wl)
	m2, e2 := zzRunOnce("p2", lockNS, rl, wl)
	m3, e3 := zzRunOnce("", lockNS, rl, wl)
	nd.Assert((e1 == nil) == (e2 == nil) && (e1 == nil) == (e3 == nil), "C15/run-same-verdict-under-any-parent")
	if e1 == nil && e2 == nil && e3 == nil {
		want := lockNS + name
		if global {
			want = "@" + name
		}
		for _, m := range []commservices.LockMap{m1, m2, m3} {
			mode, ok := m[want]
			nd.Assert(len(m) == 1 && ok, "C15/run-lock-key-independent-of-parent-task")
			if ok {
				nd.Assert(mode == write, "C15/run-lock-mode")
			}
		}
	}
	nd.Reach("C15/run-lock-names-end")
}
