//go:build verif

package i18mem

import (
	"sync"

	"github.com/goatcms/goatcore/zzverif/nd"
)

// ZZVerifC20Store: the in-memory translation store under concurrent batches
// (what the loader does with several files): G goroutines each Set or
// SetDefault a batch of one or two keys (symbolic values) while another one
// translates; under every schedule with at most P preemptions every key of
// every batch is translatable afterwards to its value, nothing panics, no
// data race.
func ZZVerifC20Store() {
	nd.Schedule(nd.Param("SP", 2))
	nd.Races()
	i18 := NewI18Mem()
	g := nd.Param("SG", 2)
	batches := make([]map[string]string, g)
	useDefault := make([]bool, g)
	for i := 0; i < g; i++ {
		name := []string{"a", "b", "c"}[i]
		batches[i] = map[string]string{name + ".x": nd.String("v", 1)}
		if nd.Bool("two-keys") {
			batches[i][name+".y"] = nd.String("v", 1)
		}
		useDefault[i] = nd.Bool("set-default")
	}
	var wg sync.WaitGroup
	for i := 0; i < g; i++ {
		wg.Add(1)
		go func(i int) {
			defer wg.Done()
			if useDefault[i] {
				i18.SetDefault(batches[i])
			} else {
				i18.Set(batches[i])
			}
		}(i)
	}
	wg.Add(1)
	go func() {
		defer wg.Done()
		i18.Translate("a.x")
	}()
	wg.Wait()
	for i := 0; i < g; i++ {
		for k, v := range batches[i] {
			got, err := i18.Translate(k)
			// '%' in a value would be a formatting verb
			ok := true
			for j := 0; j < len(v); j++ {
				ok = nd.And(ok, v[j] != '%')
			}
			if ok {
				nd.Assert(err == nil && got == v, "C20/store-key-of-every-batch-translatable")
			} else {
				nd.Assert(err == nil, "C20/store-key-of-every-batch-translatable")
			}
		}
	}
	nd.Reach("C20/store-end")
}
