//go:build verif

package fsi18loader

import (
	"github.com/goatcms/goatcore/filesystem"
	"github.com/goatcms/goatcore/filesystem/filespace/memfs"
	"github.com/goatcms/goatcore/i18n/i18mem"
	"github.com/goatcms/goatcore/zzverif/nd"
)

// ZZVerifC20Load: loading a directory of translation files (one or two
// files, one nested in a sub-directory, plus a non-JSON file that must be
// ignored) makes every key of every file translatable to its value, under
// every schedule of the loader with at most P preemptions; the store
// is empty or already holds another value for a key (as translation or as
// default); values are symbolic bytes (no '%', which Translate would interpret as a verb, no
// quote/backslash/control so that the JSON text stays well-formed).
func ZZVerifC20Load() {
	nd.Schedule(nd.Param("P", 1))
	nd.Races()
	fs, _ := memfs.NewFilespace()
	val := func(label string) string {
		v := nd.String(label, 1)
		c := v[0]
		nd.Assume(nd.And(nd.And(c != '%', c != '"'), nd.And(c != '\\', c >= 0x20)))
		nd.Assume(c < 0x80)
		return v
	}
	v1, v2 := val("v1"), val("v2")
	nd.Assume(fs.WriteFile("tr/en.json", []byte(`{"a":{"b":"`+v1+`"}}`), filesystem.DefaultUnixFileMode) == nil)
	two := nd.Choose("two-files", 2) == 1
	if two {
		nd.Assume(fs.WriteFile("tr/sub/pl.json", []byte(`{"c":"`+v2+`","n":7}`), filesystem.DefaultUnixFileMode) == nil)
	}
	nd.Assume(fs.WriteFile("tr/readme.txt", []byte("not json {"), filesystem.DefaultUnixFileMode) == nil)
	i18 := i18mem.NewI18Mem()
	// a store that already knows the key (as a translation or as a default):
	// after loading, the key translates to the FILE's value
	switch nd.Choose("preset", 3) {
	case 1:
		i18.Set(map[string]string{"a.b": "old", "keep": "k"})
	case 2:
		i18.SetDefault(map[string]string{"a.b": "old", "keep": "k"})
	}
	err := Load(fs, "tr/", i18, nil)
	nd.Assert(err == nil, "C20/load-no-error")
	got, terr := i18.Translate("a.b")
	nd.Assert(terr == nil && got == v1, "C20/load-key-translatable")
	if two {
		got, terr = i18.Translate("c")
		nd.Assert(terr == nil && got == v2, "C20/load-second-file-key-translatable")
		got, terr = i18.Translate("n")
		nd.Assert(terr == nil && got == "7", "C20/load-number-leaf-translatable")
	}
	nd.Reach("C20/load-end")
}
