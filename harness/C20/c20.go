//go:build verif

package plainmap

import (
	"github.com/goatcms/goatcore/zzverif/nd"
)

func zzKey(label string) string {
	k := nd.String(label, 1)
	nd.Assume(k != ".")
	return k
}

// zzSameTree: deep equality of nested maps with string leaves.
func zzSameTree(a, b map[string]interface{}) bool {
	if len(a) != len(b) {
		return false
	}
	ok := true
	for k, va := range a {
		vb, found := b[k]
		if !found {
			return false
		}
		switch x := va.(type) {
		case map[string]interface{}:
			y, isMap := vb.(map[string]interface{})
			if !isMap {
				return false
			}
			ok = nd.And(ok, zzSameTree(x, y))
		case string:
			y, isStr := vb.(string)
			if !isStr {
				return false
			}
			ok = nd.And(ok, x == y)
		default:
			return false
		}
	}
	return ok
}

// zzGenTree builds a nested map of depth <= d with 1..NK dot-free symbolic
// keys per level, no empty sub-maps, symbolic string leaves.
func zzGenTree(d int) map[string]interface{} {
	m := map[string]interface{}{}
	n := 1 + nd.Choose("nkeys", nd.Param("NK", 2))
	var keys []string
	for i := 0; i < n; i++ {
		k := zzKey("key")
		for _, o := range keys {
			nd.Assume(k != o)
		}
		keys = append(keys, k)
		if d > 1 && nd.Choose("sub", 2) == 1 {
			m[k] = zzGenTree(d - 1)
		} else {
			m[k] = nd.StringUpTo("leaf", 1)
		}
	}
	return m
}

// ZZVerifC20Flat: ToRecursiveMap(RecursiveMapToPlainMap(m)) == m for every
// nested map within the shape bound, and flattening yields exactly one dotted
// key per leaf.
func ZZVerifC20Flat() {
	m := zzGenTree(nd.Param("D", 2))
	flat, err := RecursiveMapToPlainMap(m)
	nd.Assert(err == nil, "C20/flatten-no-error")
	back, err := ToRecursiveMap(flat)
	nd.Assert(err == nil, "C20/rebuild-no-error")
	if err == nil {
		nd.Assert(zzSameTree(m, back), "C20/flatten-rebuild-identity")
	}
	nd.Reach("C20/flat-end")
}

// ZZVerifC20Unflat: RecursiveMapToPlainMap(ToRecursiveMap(f)) == f for flat
// maps with prefix-free dotted keys.
func ZZVerifC20Unflat() {
	a, b, c := zzKey("a"), zzKey("b"), zzKey("c")
	nd.Assume(a != b)
	f := map[string]interface{}{}
	shape := nd.Choose("shape", 3)
	v1, v2 := nd.StringUpTo("v1", 1), nd.StringUpTo("v2", 1)
	var k1, k2 string
	switch shape {
	case 0: // two top-level keys
		k1, k2 = a, b
	case 1: // a.c and b
		k1, k2 = a+"."+c, b
	case 2: // a.b and a.c (siblings under a)
		nd.Assume(b != c)
		k1, k2 = a+"."+b, a+"."+c
	}
	f[k1], f[k2] = v1, v2
	r, err := ToRecursiveMap(f)
	nd.Assert(err == nil, "C20/unflat-no-error")
	if err != nil {
		return
	}
	g, err := RecursiveMapToPlainMap(r)
	nd.Assert(err == nil && len(g) == 2, "C20/unflat-size")
	if err == nil && len(g) == 2 {
		x1, ok1 := g[k1].(string)
		x2, ok2 := g[k2].(string)
		nd.Assert(ok1 && ok2 && x1 == v1 && x2 == v2, "C20/unflat-identity")
	}
	nd.Reach("C20/unflat-end")
}

// zzJSONItem appends one string item (plain byte or escape) to the JSON text
// and its decoded value to want.
func zzJSONItem(text, want []byte) ([]byte, []byte) {
	switch nd.Choose("item", 4) {
	case 0: // plain byte: anything but quote, backslash, control
		b := nd.Byte("plain")
		nd.Assume(nd.And(b != '"', b != '\\'))
		nd.Assume(b >= 0x20)
		return append(text, b), append(want, b)
	case 1: // two-character escapes
		i := nd.Choose("esc", 8)
		src := []byte{'"', '\\', '/', 'b', 'f', 'n', 'r', 't'}[i]
		dec := []byte{'"', '\\', '/', '\b', '\f', '\n', '\r', '\t'}[i]
		return append(text, '\\', src), append(want, dec)
	case 2: // \u00XX with symbolic hex digits (ASCII range)
		h1 := nd.Byte("h1")
		h2 := nd.Byte("h2")
		nd.Assume(nd.And(h1 >= '0', h1 <= '7'))
		nd.Assume(nd.Or(nd.And(h2 >= '0', h2 <= '9'), nd.And(h2 >= 'a', h2 <= 'f')))
		v := (h1 - '0') << 4
		if h2 <= '9' {
			v |= h2 - '0'
		} else {
			v |= h2 - 'a' + 10
		}
		return append(text, '\\', 'u', '0', '0', h1, h2), append(want, v)
	default: // non-ASCII two-byte UTF-8 sequence passes through
		return append(text, 0xc3, 0xa9), append(want, 0xc3, 0xa9)
	}
}

// ZZVerifC20Read: reading a JSON object into a flat string map yields, for a
// string leaf, the value a standard JSON decoder yields (escapes decoded), and
// for a number leaf its token text; nested objects give dotted keys; other
// leaf kinds are skipped.
func ZZVerifC20Read() {
	n := nd.Choose("items", nd.Param("I", 2)+1)
	var lit, want []byte
	for i := 0; i < n; i++ {
		lit, want = zzJSONItem(lit, want)
	}
	hasEscape := len(lit) != len(want)
	nested := nd.Choose("nested", 2) == 1
	var text []byte
	if nested {
		text = append(text, []byte(`{"o":{"k":"`)...)
	} else {
		text = append(text, []byte(`{"k":"`)...)
	}
	text = append(text, lit...)
	text = append(text, []byte(`","n":12,"t":true,"z":null`)...)
	if nested {
		text = append(text, '}')
	}
	text = append(text, '}')
	m, err := JSONToPlainStringMap(text)
	nd.Assert(err == nil, "C20/read-no-error")
	if err != nil {
		return
	}
	key, nkey := "k", "n"
	if nested {
		key, nkey = "o.k", "o.n"
	}
	got, ok := m[key]
	nd.Assert(ok, "C20/read-string-leaf-present")
	if ok {
		if hasEscape {
			nd.Assert(got == string(want), "C20/read-escapes-decoded")
		} else {
			nd.Assert(got == string(want), "C20/read-plain-value")
		}
	}
	nd.Assert(m[nkey] == "12", "C20/read-number-leaf")
	nd.Assert(len(m) == 2, "C20/read-other-kinds-skipped")
	nd.Reach("C20/read-end")
}

// ZZVerifC20Write: writing a flat map as JSON and reading it back returns the
// same map, for every value over all byte values that are valid in a JSON
// document (valid UTF-8: here ASCII incl. quote, backslash, control).
func ZZVerifC20Write() { zzWrite(nd.StringUpTo("v", nd.Param("V", 2)), 0, 0, "C20/write-end") }

// ZZVerifC20WriteKeys: the same round trip for keys that need escaping (a
// leaf key and the name of a nested object drawn from quote, backslash,
// control character, slash, before and behind each other), with a fixed
// value, through both writers.
func ZZVerifC20WriteKeys() {
	zzWrite("v\"", 1+nd.Choose("leaf-key", 6), 1+nd.Choose("section-key", 3), "C20/writekeys-end")
}

func zzWrite(v string, leafIdx, sectionIdx int, endLabel string) {
	for i := 0; i < len(v); i++ {
		nd.Assume(v[i] < 0x80)
	}
	// (the last two sort behind every section name: the nested object is then
	// written - and read - before an escaped sibling)
	leaf := []string{"a", "\"", "\\", "\n", "/", "z\\", "~\""}[leafIdx]
	section := []string{"b", "q\"", "s\\", "t\t"}[sectionIdx]
	m := map[string]string{leaf: v}
	nested := nd.Choose("two", 2) == 1
	if nested {
		m[section+".c"] = "x"
	}
	var js string
	var err error
	if nd.Bool("formatted-writer") {
		js, err = PlainStringMapToFormattedJSON(m)
	} else {
		js, err = PlainStringMapToJSON(m)
	}
	nd.Assert(err == nil, "C20/write-no-error")
	back, err := JSONToPlainStringMap([]byte(js))
	nd.Assert(err == nil, "C20/write-output-parses")
	if err != nil {
		return
	}
	nd.Assert(len(back) == len(m), "C20/write-read-size")
	got, ok := back[leaf]
	nd.Assert(ok && got == v, "C20/write-read-identity")
	if nested {
		got, ok = back[section+".c"]
		nd.Assert(ok && got == "x", "C20/write-read-nested-identity")
	}
	nd.Reach(endLabel)
}
