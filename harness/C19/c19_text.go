//go:build verif

package gtprovider

import (
	"strings"
	"sync"

	"github.com/goatcms/goatcore/filesystem"
	"github.com/goatcms/goatcore/filesystem/filespace/memfs"
	"github.com/goatcms/goatcore/zzverif/nd"
)

var zzNames = []string{"a", "b", "c", "d"}

// zzLayer is a table name -> body ("" = not defined) for one layer.
type zzLayer [4]string

func zzFile(l zzLayer) string {
	out := ""
	for i, body := range l {
		if body != "" {
			out += `{{define "` + zzNames[i] + `"}}` + body + `{{end}}`
		}
	}
	return out
}

func zzOverlay(layers ...zzLayer) zzLayer {
	var r zzLayer
	for _, l := range layers {
		for i, b := range l {
			if b != "" {
				r[i] = b
			}
		}
	}
	return r
}

// zzPick chooses which of the candidate definitions a layer contains.
func zzPick(label string, tag string, cand []int) zzLayer {
	var l zzLayer
	mask := (1 << uint(len(cand))) - 1
	if !zzFixed {
		mask = nd.Choose(label, 1<<uint(len(cand)))
	}
	for bit, idx := range cand {
		if mask&(1<<uint(bit)) != 0 {
			l[idx] = tag + "-" + zzNames[idx]
		}
	}
	return l
}

type zzWorld struct {
	fs                 filesystem.Filespace
	helper, layout     zzLayer
	viewV, viewW       zzLayer
	hasHelper, hasLay  bool
}

// zzFixed: when set, every layer holds all its candidate definitions (the
// concurrency harness varies schedules, not contents).
var zzFixed bool

func zzBuildWorld() *zzWorld {
	w := &zzWorld{}
	fs, _ := memfs.NewFilespace()
	w.fs = fs
	w.helper = zzPick("helper-defs", "H", []int{0, 1})
	w.layout = zzPick("layout-defs", "L", []int{1, 2})
	w.viewV = zzPick("viewv-defs", "V", []int{2, 3})
	w.viewW = zzPick("vieww-defs", "W", []int{3, 0})
	put := func(p string, l zzLayer) bool {
		txt := zzFile(l)
		if txt == "" {
			return false
		}
		nd.Assume(fs.WriteFile(p, []byte(txt), filesystem.DefaultUnixFileMode) == nil)
		return true
	}
	w.hasHelper = put("helpers/h.tmpl", w.helper)
	w.hasLay = put("layouts/L/l.tmpl", w.layout)
	put("views/v/v.tmpl", w.viewV)
	put("views/w/w.tmpl", w.viewW)
	return w
}

type zzRenderer interface {
	ExecuteTemplate(wr interface{ Write([]byte) (int, error) }, name string, data interface{}) error
}

// zzTable renders every pool name of a template set: body or "" if undefined.
func zzTable(render func(name string) (string, bool)) zzLayer {
	var l zzLayer
	for i, n := range zzNames {
		if s, ok := render(n); ok {
			l[i] = s
		}
	}
	return l
}

func (w *zzWorld) expectView(name string) zzLayer {
	if name == "v" {
		return zzOverlay(w.helper, w.layout, w.viewV)
	}
	return zzOverlay(w.helper, w.layout, w.viewW)
}

func zzViewTable(p *Provider, view string) (zzLayer, bool) {
	t, err := p.View("L", view)
	if err != nil || t == nil {
		return zzLayer{}, false
	}
	return zzTable(func(n string) (string, bool) {
		if t.Lookup(n) == nil {
			return "", false
		}
		var sb strings.Builder
		if err := t.ExecuteTemplate(&sb, n, nil); err != nil {
			return "", false
		}
		return sb.String(), true
	}), true
}

func zzLayoutTable(p *Provider) (zzLayer, bool) {
	t, err := p.Layout("L")
	if err != nil || t == nil {
		return zzLayer{}, false
	}
	return zzTable(func(n string) (string, bool) {
		if t.Lookup(n) == nil {
			return "", false
		}
		var sb strings.Builder
		if err := t.ExecuteTemplate(&sb, n, nil); err != nil {
			return "", false
		}
		return sb.String(), true
	}), true
}

func zzBaseTable(p *Provider) (zzLayer, bool) {
	t, err := p.Base()
	if err != nil || t == nil {
		return zzLayer{}, false
	}
	return zzTable(func(n string) (string, bool) {
		if t.Lookup(n) == nil {
			return "", false
		}
		var sb strings.Builder
		if err := t.ExecuteTemplate(&sb, n, nil); err != nil {
			return "", false
		}
		return sb.String(), true
	}), true
}

// zzViewName: a symbolic view name restricted to the two existing views (the
// solver decides which one; paths and cache keys are built from it).
func zzViewName(label string) string {
	n := nd.String(label, 1)
	nd.Assume(nd.Or(n == "v", n == "w"))
	return n
}

// ZZVerifC19TextLayers: for every combination of overlapping definitions in the
// helper, layout and two view directories, every order of R requests
// (View v / View w / Layout / Base) with caching on or off: a view sees
// helper < layout < own definitions, views do not leak into each other, into
// the layout or into the base, and repeated requests are equivalent.
func ZZVerifC19TextLayers() {
	zzFixed = false
	w := zzBuildWorld()
	cached := nd.Choose("cached", 2) == 1
	p := NewProvider(w.fs, "helpers", "layouts/{name}", "views/{name}", ".tmpl", nil, cached)
	reqs := nd.Param("R", 3)
	for i := 0; i < reqs; i++ {
		switch nd.Choose("request", 3) {
		case 0:
			name := zzViewName("view")
			got, ok := zzViewTable(p, name)
			nd.Assert(ok, "C19/text/view-builds")
			if ok {
				want := w.expectView("v")
				if name != "v" {
					want = w.expectView("w")
				}
				nd.Assert(got == want, "C19/text/view-layering")
			}
		case 1:
			got, ok := zzLayoutTable(p)
			nd.Assert(ok, "C19/text/layout-builds")
			if ok {
				nd.Assert(got == zzOverlay(w.helper, w.layout), "C19/text/layout-isolated-from-views")
			}
		case 2:
			got, ok := zzBaseTable(p)
			nd.Assert(ok, "C19/text/base-builds")
			if ok {
				nd.Assert(got == w.helper, "C19/text/base-isolated")
			}
		}
	}
	nd.Reach("C19/text/layers-end")
}

// ZZVerifC19TextConcurrent: two goroutines issue their first requests at the same
// time (any mix of View v / View w / Layout / Base): no fatal error (overlapping map
// access is detected), both get the expected templates.
func ZZVerifC19TextConcurrent() {
	nd.Schedule(nd.Param("P", 2))
	nd.Races()
	nd.MapRaces()
	zzFixed = true
	w := zzBuildWorld()
	p := NewProvider(w.fs, "helpers", "layouts/{name}", "views/{name}", ".tmpl", nil, true)
	kinds := []int{nd.Choose("req1", 4), nd.Choose("req2", 4)}
	var got [2]zzLayer
	var ok [2]bool
	var wg sync.WaitGroup
	for i := 0; i < 2; i++ {
		wg.Add(1)
		go func(i int) {
			defer wg.Done()
			switch kinds[i] {
			case 0:
				got[i], ok[i] = zzViewTable(p, "v")
			case 1:
				got[i], ok[i] = zzViewTable(p, "w")
			case 2:
				got[i], ok[i] = zzLayoutTable(p)
			case 3:
				got[i], ok[i] = zzBaseTable(p)
			}
		}(i)
	}
	wg.Wait()
	for i := 0; i < 2; i++ {
		nd.Assert(ok[i], "C19/text/concurrent-builds")
		want := zzOverlay(w.helper, w.layout)
		if kinds[i] == 0 {
			want = w.expectView("v")
		} else if kinds[i] == 1 {
			want = w.expectView("w")
		} else if kinds[i] == 3 {
			want = w.helper
		}
		if ok[i] {
			nd.Assert(got[i] == want, "C19/text/concurrent-equivalent")
		}
	}
	// the provider stays usable afterwards: every kind of request still
	// returns (a lock left behind by the concurrent first requests would
	// show as a deadlock) with the expected template
	for _, v := range []string{"v", "w"} {
		g, k := zzViewTable(p, v)
		nd.Assert(k && g == w.expectView(v), "C19/text/after-concurrent-view")
	}
	g, k := zzLayoutTable(p)
	nd.Assert(k && g == zzOverlay(w.helper, w.layout), "C19/text/after-concurrent-layout")
	nd.Reach("C19/text/concurrent-end")
}

// ZZVerifC19TextBroken: one template file with a syntax error in view v's directory,
// in the layout directory or among the helpers; R requests in any order with
// caching on or off. A request whose template depends on the broken file
// fails every time it is asked (a failed build is never answered later from
// the cache with a partial template); the other requests are unaffected.
func ZZVerifC19TextBroken() {
	zzFixed = true
	w := zzBuildWorld()
	zzFixed = false
	where := nd.Choose("broken-file-in", 3) // 0 view v, 1 layout, 2 helpers
	path := []string{"views/v/zz.tmpl", "layouts/L/zz.tmpl", "helpers/zz.tmpl"}[where]
	nd.Assume(w.fs.WriteFile(path, []byte("{{define \"x\"}}a{{end}}{{"), filesystem.DefaultUnixFileMode) == nil)
	cached := nd.Choose("cached", 2) == 1
	p := NewProvider(w.fs, "helpers", "layouts/{name}", "views/{name}", ".tmpl", nil, cached)
	reqs := nd.Param("BR", 3)
	for i := 0; i < reqs; i++ {
		switch nd.Choose("request", 3) {
		case 0:
			name := zzViewName("view")
			got, ok := zzViewTable(p, name)
			if name == "v" || where != 0 {
				nd.Assert(!ok, "C19/text/broken-view-fails-every-time")
			} else {
				nd.Assert(ok, "C19/text/view-builds-beside-broken-view")
				if ok {
					nd.Assert(got == w.expectView("w"), "C19/text/view-layering-beside-broken-view")
				}
			}
		case 1:
			_, ok := zzLayoutTable(p)
			nd.Assert(ok == (where == 0), "C19/text/layout-fails-iff-it-depends-on-broken-file")
		case 2:
			_, ok := zzBaseTable(p)
			nd.Assert(ok == (where != 2), "C19/text/base-fails-iff-helpers-broken")
		}
	}
	nd.Reach("C19/text/broken-end")
}

// ZZVerifC19TextTwoLayouts: two layouts L and M (overlapping definitions), two views, TR
// requests View(layout, view) with symbolic layout and view names in any
// order, caching on or off: every answer shows helper < the REQUESTED layout <
// the requested view (a template is never answered from the cache for another
// layout/view pair).
func ZZVerifC19TextTwoLayouts() {
	zzFixed = true
	w := zzBuildWorld()
	zzFixed = false
	var layM zzLayer
	layM[1], layM[3] = "M-"+zzNames[1], "M-"+zzNames[3]
	nd.Assume(w.fs.WriteFile("layouts/M/m.tmpl", []byte(zzFile(layM)), filesystem.DefaultUnixFileMode) == nil)
	cached := nd.Choose("cached", 2) == 1
	p := NewProvider(w.fs, "helpers", "layouts/{name}", "views/{name}", ".tmpl", nil, cached)
	reqs := nd.Param("TR", 2)
	for i := 0; i < reqs; i++ {
		layoutName, lay := "L", w.layout
		if nd.String("layout", 1) == "M" {
			layoutName, lay = "M", layM
		}
		view := zzViewName("view")
		t, err := p.View(layoutName, view)
		nd.Assert(err == nil && t != nil, "C19/text/twolayouts-view-builds")
		if err != nil || t == nil {
			return
		}
		got := zzTable(func(n string) (string, bool) {
			if t.Lookup(n) == nil {
				return "", false
			}
			var sb strings.Builder
			if err := t.ExecuteTemplate(&sb, n, nil); err != nil {
				return "", false
			}
			return sb.String(), true
		})
		want := zzOverlay(w.helper, lay, w.viewV)
		if view != "v" {
			want = zzOverlay(w.helper, lay, w.viewW)
		}
		nd.Assert(got == want, "C19/text/twolayouts-view-of-requested-layout")
	}
	nd.Reach("C19/text/twolayouts-end")
}

// zzSplit writes the two definitions of a layer under dir: the first into
// dir/m.tmpl, the second (how) into the same file, into a sub-directory that
// sorts before m.tmpl, into one that sorts after it, or - together with a
// copy of the first - into two sub-directories with no file beside them.
func zzSplit(fs filesystem.Filespace, dir string, l zzLayer, how int) {
	var first, second zzLayer
	seen := false
	for i, b := range l {
		if b == "" {
			continue
		}
		if !seen {
			first[i], seen = b, true
		} else {
			second[i] = b
		}
	}
	put := func(p string, l zzLayer) {
		nd.Assume(fs.WriteFile(p, []byte(zzFile(l)), filesystem.DefaultUnixFileMode) == nil)
	}
	switch how {
	case 0:
		put(dir+"/m.tmpl", l)
	case 1:
		put(dir+"/a/x.tmpl", second)
		put(dir+"/m.tmpl", first)
	case 2:
		put(dir+"/m.tmpl", first)
		put(dir+"/z/x.tmpl", second)
	case 3:
		put(dir+"/a/x.tmpl", first)
		put(dir+"/z/deep/x.tmpl", second)
	default:
		// a sub-directory whose name starts with a dot is a directory like
		// any other (only the entries "." and ".." are not walked)
		put(dir+"/m.tmpl", first)
		put(dir+"/.p/x.tmpl", second)
	}
}

// ZZVerifC19TextTree: the definitions of the helper, layout and view layers are
// spread over files and sub-directories of their directory in every
// combination (a layer's "own" definitions are all those under its
// directory): the view, the layout and the base show the same tables as when
// each layer is one file, caching on or off, asked twice.
func ZZVerifC19TextTree() {
	fs, _ := memfs.NewFilespace()
	var helper, layout, viewV, viewW zzLayer
	helper[0], helper[1] = "H-a", "H-b"
	layout[1], layout[2] = "L-b", "L-c"
	viewV[2], viewV[3] = "V-c", "V-d"
	viewW[3], viewW[0] = "W-d", "W-a"
	zzSplit(fs, "helpers", helper, nd.Choose("helper-split", 5))
	zzSplit(fs, "layouts/L", layout, nd.Choose("layout-split", 5))
	zzSplit(fs, "views/v", viewV, nd.Choose("view-split", 5))
	zzSplit(fs, "views/w", viewW, 0)
	cached := nd.Choose("cached", 2) == 1
	p := NewProvider(fs, "helpers", "layouts/{name}", "views/{name}", ".tmpl", nil, cached)
	for round := 0; round < 2; round++ {
		got, ok := zzViewTable(p, "v")
		nd.Assert(ok && got == zzOverlay(helper, layout, viewV), "C19/text/tree-view-layering")
		got, ok = zzViewTable(p, "w")
		nd.Assert(ok && got == zzOverlay(helper, layout, viewW), "C19/text/tree-other-view-layering")
		got, ok = zzLayoutTable(p)
		nd.Assert(ok && got == zzOverlay(helper, layout), "C19/text/tree-layout")
		got, ok = zzBaseTable(p)
		nd.Assert(ok && got == helper, "C19/text/tree-base")
	}
	nd.Reach("C19/text/tree-end")
}
