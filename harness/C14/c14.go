//go:build verif

package runner

import (
	"errors"
	"strings"
	"sync"

	"github.com/goatcms/goatcore/app"
	"github.com/goatcms/goatcore/app/gio"
	"github.com/goatcms/goatcore/app/gio/bufferio"
	"github.com/goatcms/goatcore/app/modules/commonm/commservices"
	"github.com/goatcms/goatcore/app/modules/commonm/commservices/mutex"
	"github.com/goatcms/goatcore/app/modules/pipelinem/pipservices"
	"github.com/goatcms/goatcore/app/modules/pipelinem/pipservices/namespaces"
	"github.com/goatcms/goatcore/app/modules/pipelinem/pipservices/tasks"
	"github.com/goatcms/goatcore/app/scope"
	"github.com/goatcms/goatcore/filesystem"
	"github.com/goatcms/goatcore/filesystem/filespace/memfs"
	"github.com/goatcms/goatcore/zzverif/nd"
)

// zzTrace is the event log: "b<i>" body of task i begins, "e<i>" it ends.
type zzTrace struct {
	mu  sync.Mutex
	evs []string
}

func (t *zzTrace) add(e string) {
	t.mu.Lock()
	t.evs = append(t.evs, e)
	t.mu.Unlock()
}

func (t *zzTrace) index(e string) int {
	for i, x := range t.evs {
		if x == e {
			return i
		}
	}
	return -1
}

// zzSandbox is the stub sandbox: the body of task i.
type zzSandbox struct {
	id    string
	fail  bool
	trace *zzTrace
}

func (s *zzSandbox) Run(ctx app.IOContext) error {
	s.trace.add("b" + s.id)
	nd.Yield()
	s.trace.add("e" + s.id)
	if s.fail {
		return errors.New("body failed")
	}
	return nil
}

type zzSandboxes struct {
	boxes map[string]pipservices.Sandbox
}

func (m *zzSandboxes) Add(pipservices.SandboxBuilder) {}
func (m *zzSandboxes) Get(name string) (pipservices.Sandbox, error) {
	if b, ok := m.boxes[name]; ok {
		return b, nil
	}
	return nil, errors.New("unknown sandbox")
}

// ZZVerifC14Graph: T tasks with a symbolic wait relation (a task may wait
// only for tasks submitted before it) and a symbolic failing subset are
// submitted to the real runner; under every schedule with at most P
// preemptions a body begins only after every prerequisite has finished, never
// begins after a failed prerequisite (and then the task ends failed), and
// TasksManager.Wait returns after all tasks, reporting an error iff some task
// failed.
func ZZVerifC14Graph() { zzGraph(nd.Param("P", 1), nd.Param("T", 2), nd.Param("FIXED", 0) == 1) }

// ZZVerifC14WaitAll: three tasks, the third waits for both others (every
// entry of a wait list is honoured, not just one).
func ZZVerifC14WaitAll() { zzGraph(nd.Param("WP", 1), 3, true) }

func zzGraph(pBound, t int, fixed bool) {
	nd.Schedule(pBound)
	nd.Races()
	trace := &zzTrace{}
	names := []string{"t0", "t1", "t2"}
	fails := make([]bool, t)
	waits := make([][]int, t)
	boxes := &zzSandboxes{boxes: map[string]pipservices.Sandbox{}}
	for i := 0; i < t; i++ {
		fails[i] = nd.Bool("fails")
		for j := 0; j < i; j++ {
			if fixed {
				if i == 2 {
					waits[i] = append(waits[i], j)
				}
				continue
			}
			if nd.Bool("waits") {
				waits[i] = append(waits[i], j)
			}
		}
		boxes.boxes["sb"+names[i]] = &zzSandbox{id: names[i], fail: fails[i], trace: trace}
	}
	unit := tasks.NewUnit(tasks.UnitDeps{NamespacesUnit: namespaces.NewUnit()})
	r := NewRunner(Deps{SandboxesManager: boxes, TasksUnit: unit, SharedMutex: mutex.NewSharedMutex()})
	scp := scope.New(scope.Params{Name: "root"})
	cwd, _ := memfs.NewFilespace()
	buf := bufferio.NewBuffer()
	mk := func(i int) pipservices.Pip {
		var w []string
		for _, j := range waits[i] {
			w = append(w, names[j])
		}
		return pipservices.Pip{
			Name: names[i],
			Context: pipservices.PipContext{
				In: gio.NewInput(strings.NewReader("")), Out: bufferio.NewBufferOutput(buf), Err: bufferio.NewBufferOutput(buf),
				Scope: scp, CWD: filesystem.Filespace(cwd),
			},
			Namespaces: namespaces.NewNamespaces(pipservices.NamasepacesParams{}),
			Sandbox:    "sb" + names[i],
			Lock:       commservices.LockMap{},
			Wait:       w,
		}
	}
	accepted := make([]bool, t)
	for i := 0; i < t; i++ {
		accepted[i] = r.Run(mk(i)) == nil
	}
	mgr, err := unit.FromScope(scp)
	nd.Assert(err == nil, "C14/manager")
	werr := mgr.Wait()
	anyFailed := false
	// ground truth of failure, in submission order (the tasks share the root's
	// context scope, so Task.Errors() of one task also shows the others'
	// errors and cannot be used as the oracle)
	failed := make([]bool, t)
	for i := 0; i < t; i++ {
		if !accepted[i] {
			continue
		}
		b, e := trace.index("b"+names[i]), trace.index("e"+names[i])
		prereqFailed := false
		for _, j := range waits[i] {
			if !accepted[j] {
				continue
			}
			_, ok := mgr.Get(names[j])
			nd.Assert(ok, "C14/task-registered")
			if failed[j] {
				prereqFailed = true
			}
			if b >= 0 {
				// the prerequisite's body either ended before ours began, or it
				// never ran (it failed before its body)
				bj, ej := trace.index("b"+names[j]), trace.index("e"+names[j])
				nd.Assert(bj < 0 || (ej >= 0 && ej < b), "C14/body-before-prerequisite-finished")
			}
		}
		task, ok := mgr.Get(names[i])
		nd.Assert(ok, "C14/accepted-task-registered")
		if !ok {
			continue
		}
		switch {
		case prereqFailed:
			nd.Assert(b < 0, "C14/body-ran-after-failed-prerequisite")
			nd.Assert(len(task.Errors()) > 0, "C14/dependent-of-failed-task-not-failed")
			failed[i] = true
		case b >= 0:
			failed[i] = fails[i]
			if fails[i] {
				nd.Assert(len(task.Errors()) > 0, "C14/failed-body-not-recorded")
			}
		default:
			// the body did not run although no prerequisite failed (allowed: the
			// shared context may already have failed); the task must be failed
			nd.Assert(len(task.Errors()) > 0, "C14/body-skipped-without-failure")
			failed[i] = true
		}
		if failed[i] {
			anyFailed = true
		}
		// Wait returned after the body ended
		nd.Assert(b < 0 || e >= 0, "C14/wait-returned-before-body-ended")
	}
	nd.Assert((werr != nil) == anyFailed, "C14/wait-error-iff-some-task-failed")
	// an unknown prerequisite is refused at submission (probed when all
	// tasks have finished: the refusal does not depend on the schedule)
	bad := mk(0)
	bad.Name = "tx"
	// ... wherever the unknown name stands in the wait list (before, between
	// or behind the names of existing tasks)
	var known []string
	for i := 0; i < t; i++ {
		if accepted[i] {
			known = append(known, names[i])
		}
	}
	for at := 0; at <= len(known); at++ {
		bad.Name = []string{"tx0", "tx1", "tx2", "tx3"}[at]
		bad.Wait = append(append(append([]string{}, known[:at]...), "nosuch"), known[at:]...)
		nd.Assert(r.Run(bad) != nil, "C14/unknown-prerequisite-refused")
	}
	// ... and so is a submission that names an unknown sandbox; its NAME stays
	// free: the same task with a known sandbox is accepted afterwards
	bad = mk(0)
	bad.Name, bad.Wait, bad.Sandbox = "ty", nil, "nosuchbox"
	nd.Assert(r.Run(bad) != nil, "C14/unknown-sandbox-refused")
	if werr == nil {
		// (a scope that already failed refuses everything)
		bad.Sandbox = "sb" + names[0]
		nd.Assert(r.Run(bad) == nil, "C14/name-of-refused-submission-stays-free")
	}
	// refused submissions leave nothing behind: waiting on the manager still
	// returns (a hang is reported as a deadlock) with the same verdict
	werr2 := mgr.Wait()
	nd.Assert((werr2 != nil) == (werr != nil), "C14/wait-after-refused-submission-same-verdict")
	nd.Reach("C14/graph-end")
}
