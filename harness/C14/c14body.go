//go:build verif

package termexec

import (
	"errors"
	"strings"
	"sync"

	"github.com/goatcms/goatcore/app"
	"github.com/goatcms/goatcore/app/gio"
	"github.com/goatcms/goatcore/app/gio/bufferio"
	"github.com/goatcms/goatcore/app/scope"
	"github.com/goatcms/goatcore/app/terminal"
	"github.com/goatcms/goatcore/filesystem/filespace/memfs"
	"github.com/goatcms/goatcore/zzverif/nd"
)

type zzApp struct{ app.App }

func (zzApp) InjectTo(interface{}) error { return nil }

type zzCommands struct {
	app.TerminalCommands
	m map[string]app.TerminalCommand
}

func (c zzCommands) Command(name string) app.TerminalCommand { return c.m[name] }

// ZZVerifC14Body: within one body the commands run one at a time, in script
// order, and stop at the first failing command.
func ZZVerifC14Body() {
	nd.Schedule(nd.Param("P", 1))
	nd.Races()
	n := nd.Param("N", 3)
	failAt := nd.IntRange("fail-at", -1, n-1)
	var mu sync.Mutex
	var order []int
	running, overlap := 0, false
	cmds := zzCommands{m: map[string]app.TerminalCommand{}}
	script := ""
	for i := 0; i < n; i++ {
		i := i
		name := []string{"c0", "c1", "c2", "c3"}[i]
		script += name + " arg\n"
		cmds.m[name] = terminal.NewCommand(terminal.CommandParams{
			Name: name,
			Callback: func(a app.App, ctx app.IOContext) error {
				mu.Lock()
				running++
				if running > 1 {
					overlap = true
				}
				order = append(order, i)
				mu.Unlock()
				nd.Yield()
				mu.Lock()
				running--
				mu.Unlock()
				if i == failAt {
					return errors.New("command failed")
				}
				return nil
			},
		})
	}
	scp := scope.New(scope.Params{Name: "body"})
	cwd, _ := memfs.NewFilespace()
	buf := bufferio.NewBuffer()
	ctx := gio.NewIOContext(scp, gio.NewIO(gio.IOParams{
		In: gio.NewInput(strings.NewReader(script)), Out: bufferio.NewBufferOutput(buf), Err: bufferio.NewBufferOutput(buf), CWD: cwd,
	}))
	rctx := NewRunCtx(RunCtxParams{Application: zzApp{}, Ctx: ctx, Commands: cmds})
	err := RunLoop(rctx, "")
	want := n
	if failAt >= 0 {
		want = failAt + 1
	}
	nd.Assert(!overlap, "C14/body-commands-overlap")
	nd.Assert(len(order) == want, "C14/body-stops-at-first-failure")
	for k, v := range order {
		nd.Assert(v == k, "C14/body-script-order")
	}
	failed := err != nil || len(scp.Errors()) > 0
	nd.Assert(failed == (failAt >= 0), "C14/body-error-iff-command-failed")
	nd.Reach("C14/body-end")
}
