//go:build verif

package runner

import (
	"strings"

	"github.com/goatcms/goatcore/app"
	"github.com/goatcms/goatcore/app/gio"
	"github.com/goatcms/goatcore/app/gio/bufferio"
	"github.com/goatcms/goatcore/app/injector"
	"github.com/goatcms/goatcore/app/modules/commonm/commservices"
	"github.com/goatcms/goatcore/app/modules/commonm/commservices/mutex"
	"github.com/goatcms/goatcore/app/modules/pipelinem/pipservices"
	"github.com/goatcms/goatcore/app/modules/pipelinem/pipservices/namespaces"
	"github.com/goatcms/goatcore/app/modules/pipelinem/pipservices/tasks"
	"github.com/goatcms/goatcore/app/scope"
	"github.com/goatcms/goatcore/filesystem"
	"github.com/goatcms/goatcore/filesystem/filespace/memfs"
	"github.com/goatcms/goatcore/zzverif/nd"
)

// zzSpawner is the body of the outer task: it submits a nested task from
// inside the body - in the body's own scope or (like pip:try) in a separated
// scope that shares data and events with it.
type zzSpawner struct {
	run       func(pipservices.Pip) error
	mk        func(name string, scp app.Scope) pipservices.Pip
	separated bool
	trace     *zzTrace
}

func (s *zzSpawner) Run(ctx app.IOContext) error {
	s.trace.add("bouter")
	scp := ctx.Scope()
	if s.separated {
		scp = scope.New(scope.Params{DataScope: ctx.Scope(), EventScope: ctx.Scope(),
			Injector: injector.NewMultiInjector([]app.Injector{ctx.Scope()})})
	}
	if s.separated {
		// like pip:try: the body's scope stays open (one more task) until the
		// separated scope has finished
		if err := ctx.Scope().AddTasks(1); err != nil {
			return err
		}
	}
	err := s.run(s.mk("nested", scp))
	if s.separated {
		parent := ctx.Scope()
		go func() {
			scp.Wait()
			parent.DoneTask()
		}()
	}
	s.trace.add("eouter")
	return err
}

// ZZVerifC14Nested: a task whose body submits a nested task (in its own or in
// a separated scope) while the harness is already waiting on the task
// manager: Wait returns only after the nested task has finished and reports
// an error exactly if the nested task failed.
func ZZVerifC14Nested() {
	nd.Schedule(nd.Param("NP", 1))
	nd.Races()
	trace := &zzTrace{}
	fails := nd.Bool("nested-fails")
	separated := nd.Bool("separated-scope")
	boxes := &zzSandboxes{boxes: map[string]pipservices.Sandbox{}}
	unit := tasks.NewUnit(tasks.UnitDeps{NamespacesUnit: namespaces.NewUnit()})
	r := NewRunner(Deps{SandboxesManager: boxes, TasksUnit: unit, SharedMutex: mutex.NewSharedMutex()})
	root := scope.New(scope.Params{Name: "root"})
	cwd, _ := memfs.NewFilespace()
	buf := bufferio.NewBuffer()
	mk := func(name string, scp app.Scope) pipservices.Pip {
		return pipservices.Pip{
			Name: name,
			Context: pipservices.PipContext{
				In: gio.NewInput(strings.NewReader("")), Out: bufferio.NewBufferOutput(buf), Err: bufferio.NewBufferOutput(buf),
				Scope: scp, CWD: filesystem.Filespace(cwd),
			},
			Namespaces: namespaces.NewNamespaces(pipservices.NamasepacesParams{}),
			Sandbox:    "sb" + name,
			Lock:       commservices.LockMap{},
		}
	}
	boxes.boxes["sbouter"] = &zzSpawner{run: r.Run, mk: mk, separated: separated, trace: trace}
	boxes.boxes["sbnested"] = &zzSandbox{id: "nested", fail: fails, trace: trace}
	nd.Assert(r.Run(mk("outer", root)) == nil, "C14/nested-outer-accepted")
	mgr, err := unit.FromScope(root)
	nd.Assert(err == nil, "C14/manager")
	werr := mgr.Wait()
	nd.Assert(trace.index("enested") >= 0, "C14/nested-wait-returns-after-nested-task")
	nd.Assert((werr != nil) == fails, "C14/nested-wait-reports-error-iff-nested-failed")
	nd.Reach("C14/nested-end")
}
