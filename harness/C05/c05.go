//go:build verif

package encryptfs

import (
	"bytes"
	"io"

	"github.com/goatcms/goatcore/filesystem"
	"github.com/goatcms/goatcore/filesystem/filespace/encryptfs/cipherfs"
	"github.com/goatcms/goatcore/filesystem/filespace/encryptfs/cipherfs/aesgcm256cfs"
	"github.com/goatcms/goatcore/filesystem/filespace/encryptfs/cipherfs/extcfs"
	"github.com/goatcms/goatcore/filesystem/filespace/memfs"
	"github.com/goatcms/goatcore/zzverif/nd"
)

func zzCipher(kind int) (cipherfs.Cipher, int) {
	if kind == 0 {
		return aesgcm256cfs.NewCipher(), 0
	}
	if kind == 1 {
		return extcfs.NewDefaultCipher(), 4
	}
	// the tagged cipher configured with a tag of the caller's own
	c, err := extcfs.NewCipher(extcfs.CipherKey(7), extcfs.CipherMap{extcfs.CipherKey(7): aesgcm256cfs.NewCipher()})
	nd.Assume(err == nil)
	return c, 4
}

func zzEnc(base filesystem.Filespace, secret, salt []byte, hostOnly bool, c cipherfs.Cipher) filesystem.Filespace {
	fs, err := NewEncryptFS(base, Settings{Salt: salt, Secret: secret, HostOnly: hostOnly, Cipher: c})
	nd.Assume(err == nil)
	return fs
}

func zzReadStream(r io.Reader, bufSize int) ([]byte, bool) {
	var out []byte
	buf := make([]byte, bufSize)
	if nd.Bool("read-then-io.Copy") {
		// one partial Read, the rest through io.Copy (which uses the
		// stream's WriteTo when it has one)
		n, err := r.Read(buf)
		out = append(out, buf[:n]...)
		if err == io.EOF {
			return out, true
		}
		if err != nil {
			return out, false
		}
		var rest bytes.Buffer
		if _, err := io.Copy(&rest, r); err != nil {
			return out, false
		}
		return append(out, rest.Bytes()...), true
	}
	for i := 0; i < 64; i++ {
		n, err := r.Read(buf)
		out = append(out, buf[:n]...)
		if err == io.EOF {
			return out, true
		}
		if err != nil {
			return out, false
		}
	}
	return out, false
}

// zzWrite stores pt through the whole-file or the stream path.
func zzWrite(fs filesystem.Filespace, path string, pt []byte, stream bool) {
	if !stream {
		nd.Assert(fs.WriteFile(path, pt, filesystem.DefaultUnixFileMode) == nil, "C05/writefile-ok")
		return
	}
	w, err := fs.Writer(path)
	nd.Assert(err == nil, "C05/writer-ok")
	if err != nil {
		return
	}
	cut := nd.Choose("cut", len(pt)+1)
	w.Write(pt[:cut])
	w.Write(pt[cut:])
	nd.Assert(w.Close() == nil, "C05/writer-close-ok")
}

// zzRead reads through the whole-file or the stream path; ok=false on error.
func zzRead(fs filesystem.Filespace, path string, stream bool) ([]byte, bool) {
	if !stream {
		d, err := fs.ReadFile(path)
		return d, err == nil
	}
	r, err := fs.Reader(path)
	if err != nil {
		return nil, false
	}
	d, eof := zzReadStream(r, 1+nd.Choose("buf", 3))
	r.Close()
	return d, eof
}

// ZZVerifC05Roundtrip: whatever is written (whole-file or stream) is read
// back identically through either path by a filespace with the same secret,
// salt and host binding; the stored bytes have the sealed shape
// tag‖nonce‖box; two writes of the same data can give different stored bytes.
func ZZVerifC05Roundtrip() {
	base, _ := memfs.NewFilespace()
	c, tagLen := zzCipher(nd.Choose("cipher", 3))
	secret := nd.BytesUpTo("secret", 1)
	salt := nd.BytesUpTo("salt", 1)
	if nd.Bool("long-secret") {
		// a pass phrase longer than a digest (the key material then has room
		// for a digest behind or in place of it)
		secret = append(secret, []byte("0123456789abcdef0123456789abcdef0123")...)
	}
	hostOnly := nd.Choose("hostonly", 2) == 1
	// the settings are handed over in caller-owned buffers (with spare
	// capacity); the caller then reuses the secret buffer for a filespace with
	// another salt and finally wipes both buffers: the filespace keeps the
	// secret and salt it was built with
	secretBuf := make([]byte, len(secret), len(secret)+8)
	copy(secretBuf, secret)
	saltBuf := append([]byte{}, salt...)
	enc := zzEnc(base, secretBuf, saltBuf, hostOnly, c)
	otherBase, _ := memfs.NewFilespace()
	zzEnc(otherBase, secretBuf, []byte("other salt"), hostOnly, c)
	for i := range secretBuf {
		secretBuf[i] ^= 0xff
	}
	for i := range saltBuf {
		saltBuf[i] ^= 0xff
	}
	pt := nd.BytesUpTo("pt", nd.Param("P", 2))
	wstream := nd.Choose("wstream", 2) == 1
	rstream := nd.Choose("rstream", 2) == 1
	zzWrite(enc, "f", pt, wstream)
	// a second filespace object with the same settings reads it
	enc2 := zzEnc(base, append([]byte{}, secret...), append([]byte{}, salt...), hostOnly, c)
	got, ok := zzRead(enc2, "f", rstream)
	nd.Assert(ok, "C05/roundtrip-readable")
	if ok {
		nd.Assert(bytes.Equal(got, pt), "C05/roundtrip-identity")
	}
	raw, err := base.ReadFile("f")
	nd.Assert(err == nil && len(raw) == tagLen+12+len(pt)+16, "C05/stored-shape")
	// second write of the same data: stored bytes may differ (fresh nonce)
	zzWrite(enc, "g", pt, wstream)
	raw2, err := base.ReadFile("g")
	nd.Assert(err == nil && len(raw2) == len(raw), "C05/stored-shape-2")
	if err == nil && len(raw2) == len(raw) {
		nd.Assert(nd.Feasible(!bytes.Equal(raw, raw2)), "C05/two-writes-differ")
	}
	nd.Reach("C05/roundtrip-end")
}

// ZZVerifC05Tamper: stored bytes that were truncated, modified in one byte,
// replaced by other bytes, or produced with another secret or salt are
// answered with an error - never with data and never with a panic - on both
// read paths.
func ZZVerifC05Tamper() {
	base, _ := memfs.NewFilespace()
	c, _ := zzCipher(nd.Choose("cipher", 2))
	secret := nd.BytesUpTo("secret", 1)
	salt := nd.BytesUpTo("salt", 1)
	hostOnly := nd.Bool("hostonly") // same host binding on both sides
	enc := zzEnc(base, secret, salt, hostOnly, c)
	pt := nd.BytesUpTo("pt", nd.Param("P", 1))
	zzWrite(enc, "f", pt, nd.Choose("wstream", 2) == 1)
	raw, err := base.ReadFile("f")
	nd.Assume(err == nil)
	rstream := nd.Choose("rstream", 2) == 1
	reader := enc
	label := ""
	switch nd.Choose("attack", 5) {
	case 0: // truncated to every shorter length (including empty)
		t := nd.Choose("trunc", len(raw))
		nd.Assume(base.WriteFile("f", raw[:t], filesystem.DefaultUnixFileMode) == nil)
		label = "C05/truncated"
	case 1: // one byte modified
		pos := nd.Choose("pos", len(raw))
		mask := nd.Byte("mask")
		nd.Assume(mask != 0)
		mod := append([]byte{}, raw...)
		mod[pos] ^= mask
		nd.Assume(base.WriteFile("f", mod, filesystem.DefaultUnixFileMode) == nil)
		label = "C05/modified"
	case 2: // replaced by other bytes of any length up to G
		g := nd.BytesUpTo("garbage", nd.Param("G", 8))
		nd.Assume(!bytes.Equal(g, raw))
		nd.Assume(base.WriteFile("f", g, filesystem.DefaultUnixFileMode) == nil)
		label = "C05/replaced"
	case 3: // read with another secret (same salt)
		s2 := nd.BytesUpTo("secret2", 2)
		nd.Assume(!bytes.Equal(s2, secret))
		reader = zzEnc(base, s2, salt, hostOnly, c)
		label = "C05/other-secret"
	case 4: // read with another salt (same secret)
		s2 := nd.BytesUpTo("salt2", 2)
		nd.Assume(!bytes.Equal(s2, salt))
		reader = zzEnc(base, secret, s2, hostOnly, c)
		label = "C05/other-salt"
	}
	_, ok := zzRead(reader, "f", rstream)
	nd.Assert(!ok, label+"-must-be-error")
	// the refused read leaves nothing behind: the owner can replace the
	// damaged file and read it again (a reader left open on the error path
	// would keep the file locked: reported as a deadlock)
	pt2 := []byte("z")
	nd.Assert(enc.WriteFile("f", pt2, filesystem.DefaultUnixFileMode) == nil, "C05/rewrite-after-refused-read")
	got2, err2 := enc.ReadFile("f")
	nd.Assert(err2 == nil && bytes.Equal(got2, pt2), "C05/roundtrip-after-refused-read")
	nd.Reach("C05/tamper-end")
}

// ZZVerifC05Names: name-space operations behave exactly as on the
// underlying filespace.
func ZZVerifC05Names() {
	base, _ := memfs.NewFilespace()
	c, _ := zzCipher(nd.Choose("cipher", 2))
	enc := zzEnc(base, []byte("s"), []byte("t"), false, c)
	nd.Assume(enc.WriteFile("d/f", []byte("x"), filesystem.DefaultUnixFileMode) == nil)
	nd.Assume(enc.MkdirAll("e", filesystem.DefaultUnixDirMode) == nil)
	p := nd.StringUpTo("p", nd.Param("L", 3))
	nd.Assert(enc.IsExist(p) == base.IsExist(p), "C05/names-isexist")
	nd.Assert(enc.IsDir(p) == base.IsDir(p), "C05/names-isdir")
	nd.Assert(enc.IsFile(p) == base.IsFile(p), "C05/names-isfile")
	l1, e1 := enc.ReadDir(p)
	l2, e2 := base.ReadDir(p)
	nd.Assert((e1 == nil) == (e2 == nil) && len(l1) == len(l2), "C05/names-readdir")
	switch nd.Choose("op", 4) {
	case 0:
		nd.Assert(enc.CopyFile("d/f", "d/g") == nil, "C05/names-copyfile")
		got, err := enc.ReadFile("d/g")
		nd.Assert(err == nil && bytes.Equal(got, []byte("x")), "C05/names-copy-readable")
	case 1:
		err := enc.Remove(p)
		nd.Assert((err == nil) == !base.IsExist(p) || err != nil, "C05/names-remove")
	case 2:
		nd.Assert(enc.CopyDirectory("d", "d2") == nil, "C05/names-copydir")
		got, err := enc.ReadFile("d2/f")
		nd.Assert(err == nil && bytes.Equal(got, []byte("x")), "C05/names-copydir-readable")
	case 3:
		sub, err := enc.Filespace("d")
		nd.Assert(err == nil, "C05/names-view")
		if err == nil {
			got, err := sub.ReadFile("f")
			nd.Assert(err == nil && bytes.Equal(got, []byte("x")), "C05/names-view-readable")
		}
	}
	nd.Reach("C05/names-end")
}

// zzNames lists the name tree (names and kinds, not contents) below dir.
func zzNames(fs filesystem.Filespace, dir string, depth int) string {
	l, err := fs.ReadDir(dir)
	if err != nil {
		return "!"
	}
	out := ""
	for _, inf := range l {
		out += inf.Name()
		if inf.IsDir() {
			out += "/"
			if depth > 0 {
				out += "(" + zzNames(fs, dir+"/"+inf.Name(), depth-1) + ")"
			}
		}
		out += " "
	}
	return out
}

// ZZVerifC05NamesTwin: every name-space operation (the three copies, remove,
// recursive remove, mkdir) with symbolic source and destination behaves on
// the encrypted filespace exactly as on a plain twin holding the same names:
// same verdict (error or not) and the same resulting name tree.
func ZZVerifC05NamesTwin() {
	base, _ := memfs.NewFilespace()
	twin, _ := memfs.NewFilespace()
	c, _ := zzCipher(nd.Choose("cipher", 2))
	enc := zzEnc(base, []byte("s"), []byte("t"), false, c)
	for _, fs := range []filesystem.Filespace{enc, twin} {
		nd.Assume(fs.WriteFile("d/f", []byte("x"), filesystem.DefaultUnixFileMode) == nil)
		nd.Assume(fs.MkdirAll("e", filesystem.DefaultUnixDirMode) == nil)
		nd.Assume(fs.WriteFile("g", []byte("y"), filesystem.DefaultUnixFileMode) == nil)
	}
	paths := []string{"d", "d/f", "e", "g", "n", "d/n", "e/n"}
	src := paths[nd.Choose("src", len(paths))]
	dst := paths[nd.Choose("dst", len(paths))]
	var e1, e2 error
	switch nd.IntRange("op", 0, 5) {
	case 0:
		e1, e2 = enc.CopyFile(src, dst), twin.CopyFile(src, dst)
	case 1:
		e1, e2 = enc.CopyDirectory(src, dst), twin.CopyDirectory(src, dst)
	case 2:
		e1, e2 = enc.Copy(src, dst), twin.Copy(src, dst)
	case 3:
		e1, e2 = enc.Remove(src), twin.Remove(src)
	case 4:
		e1, e2 = enc.RemoveAll(src), twin.RemoveAll(src)
	case 5:
		e1, e2 = enc.MkdirAll(src, filesystem.DefaultUnixDirMode), twin.MkdirAll(src, filesystem.DefaultUnixDirMode)
	}
	nd.Assert((e1 == nil) == (e2 == nil), "C05/names-twin-same-verdict")
	nd.Assert(zzNames(enc, ".", 2) == zzNames(twin, ".", 2), "C05/names-twin-same-tree")
	nd.Reach("C05/names-twin-end")
}

// ZZVerifC05Reuse: one filespace object keeps working with the same key
// however often it is used, whatever the length of the pass phrase (shorter
// or longer than a digest, in a buffer with or without spare capacity): it
// writes two files and reads the first one itself, a twin with the same
// settings reads the second one, a child view of it reads and writes too.
func ZZVerifC05Reuse() {
	base, _ := memfs.NewFilespace()
	c, _ := zzCipher(nd.Choose("cipher", 3))
	secret := []byte("k")
	switch nd.Choose("secret-length", 3) {
	case 1:
		secret = []byte("0123456789abcdefg") // 17 bytes
	case 2:
		secret = []byte("0123456789abcdef0123456789abcdef01234") // longer than a digest
	}
	salt := []byte("s")
	buf := make([]byte, len(secret), len(secret)+nd.Choose("spare", 2)*40)
	copy(buf, secret)
	enc := zzEnc(base, buf, salt, false, c)
	twin := zzEnc(base, append([]byte{}, secret...), salt, false, c)
	wstream := nd.Choose("stream", 2) == 1
	rstream := wstream
	pt := []byte("ab")
	zzWrite(enc, "f", pt, wstream)
	zzWrite(enc, "d/g", pt, wstream)
	got, ok := zzRead(enc, "f", rstream)
	nd.Assert(ok && bytes.Equal(got, pt), "C05/reuse-own-first-file")
	got, ok = zzRead(twin, "d/g", rstream)
	nd.Assert(ok && bytes.Equal(got, pt), "C05/reuse-twin-reads-second-file")
	nd.Reach("C05/reuse-end")
}
