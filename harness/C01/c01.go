//go:build verif

package memfs

import (
	"bytes"
	"io"

	"github.com/goatcms/goatcore/filesystem"
	"github.com/goatcms/goatcore/zzverif/nd"
	"github.com/goatcms/goatcore/zzverif/reftree"
)

const (
	zzWriteFile = iota
	zzMkdirAll
	zzRemove
	zzRemoveAll
	zzReadFile
	zzReadDir
	zzQuery
	zzLstat
	zzWriter
	zzReader
	zzCopyFile
	zzCopyDir
	zzCopy
	zzNOps
)

var zzOpName = []string{"writefile", "mkdirall", "remove", "removeall", "readfile", "readdir", "query", "lstat", "writer", "reader", "copyfile", "copydir", "copy"}

// zzOpen: the statement leaves the outcome open (path resolves to the view
// root for a mutating call, or climbs above the root): the tree must be
// either unchanged or equal to the result for the clamped path; no panic and
// no phantom node follow from the comparison.
func zzOpen(fs filesystem.Filespace, before, after *reftree.Node, label string) {
	if reftree.Same(fs, before, nil) {
		*after = *before
		return
	}
	nd.Assert(reftree.Same(fs, after, nil), label)
}

func zzReadAll(r io.Reader, bufSize int) ([]byte, bool) {
	var out []byte
	buf := make([]byte, bufSize)
	for i := 0; i < 64; i++ {
		n, err := r.Read(buf)
		out = append(out, buf[:n]...)
		if err == io.EOF {
			return out, true
		}
		if err != nil {
			return out, false
		}
	}
	return out, false
}

// zzStep applies one operation with symbolic arguments to the real filespace
// and to the reference tree and compares results and trees.
func zzStep(fs filesystem.Filespace, ref *reftree.Node, nops int) (rootGone bool) {
	op := nd.Choose("op", nops)
	name := zzOpName[op]
	L := nd.Param("L", 3)
	var p string
	if zzTemplates {
		p = zzTemplatePath("path")
	} else {
		p = nd.StringUpTo("p", L)
	}
	segs, climbs := reftree.Norm(p)
	before := ref.Clone()
	undefined := climbs
	// a listing taken before the step is a snapshot
	snap, snapErr := fs.ReadDir(".")
	var snapNames []string
	if snapErr == nil {
		for _, inf := range snap {
			snapNames = append(snapNames, inf.Name())
		}
		defer func() {
			nd.Assert(len(snap) == len(snapNames), "C01/listing-snapshot-length")
			for i, inf := range snap {
				nd.Assert(inf.Name() == snapNames[i], "C01/listing-snapshot-changed")
			}
		}()
	}
	switch op {
	case zzWriteFile:
		data := nd.BytesUpTo("data", 1)
		err := fs.WriteFile(p, data, filesystem.DefaultUnixFileMode)
		if undefined || len(segs) == 0 {
			if len(segs) > 0 {
				ref.WriteFile(segs, data)
			}
			zzOpen(fs, before, ref, "C01/writefile-open")
			return
		}
		ok := ref.WriteFile(segs, data)
		nd.Assert((err == nil) == ok, "C01/writefile-result")
		// the caller's buffer is a snapshot for the filespace (create and
		// overwrite alike): mutate it; the tree comparison below must not see it
		if len(data) > 0 {
			data[0] ^= 0xff
		}
	case zzMkdirAll:
		err := fs.MkdirAll(p, filesystem.DefaultUnixDirMode)
		if undefined {
			ref.MkdirAll(segs)
			zzOpen(fs, before, ref, "C01/mkdirall-open")
			return
		}
		ok := ref.MkdirAll(segs)
		nd.Assert((err == nil) == ok, "C01/mkdirall-result")
	case zzRemove:
		err := fs.Remove(p)
		if len(segs) == 0 {
			// removing the root of the view itself: outside the statement (only
			// "no panic" is checked)
			return true
		}
		if undefined {
			ref.Remove(segs)
			zzOpen(fs, before, ref, "C01/remove-open")
			return
		}
		ok := ref.Remove(segs)
		nd.Assert((err == nil) == ok, "C01/remove-result")
	case zzRemoveAll:
		err := fs.RemoveAll(p)
		if len(segs) == 0 {
			return true
		}
		if undefined {
			ref.RemoveAll(segs)
			zzOpen(fs, before, ref, "C01/removeall-open")
			return
		}
		ok := ref.RemoveAll(segs)
		if ok {
			nd.Assert(err == nil, "C01/removeall-result")
		}
	case zzReadFile:
		data, err := fs.ReadFile(p)
		if !undefined {
			t := ref.Find(segs)
			if t != nil && !t.Dir {
				nd.Assert(err == nil, "C01/readfile-result")
				if err == nil {
					nd.Assert(bytes.Equal(data, t.Data), "C01/readfile-bytes")
					// the returned slice is the caller's: mutating it must not
					// change the stored file (checked by the tree comparison)
					if len(data) > 0 {
						data[0] ^= 0xff
					}
				}
			} else {
				nd.Assert(err != nil, "C01/readfile-result")
			}
		}
	case zzReadDir:
		infos, err := fs.ReadDir(p)
		if !undefined {
			t := ref.Find(segs)
			if t != nil && t.Dir {
				nd.Assert(err == nil, "C01/readdir-result")
				if err == nil {
					nd.Assert(len(infos) == len(t.Kids), "C01/readdir-count")
				}
			} else {
				nd.Assert(err != nil, "C01/readdir-result")
			}
		}
	case zzQuery:
		e, f, d := fs.IsExist(p), fs.IsFile(p), fs.IsDir(p)
		if !undefined {
			t := ref.Find(segs)
			nd.Assert(e == (t != nil), "C01/isexist")
			nd.Assert(f == (t != nil && !t.Dir), "C01/isfile")
			nd.Assert(d == (t != nil && t.Dir), "C01/isdir")
		}
	case zzLstat:
		info, err := fs.Lstat(p)
		if !undefined && len(segs) > 0 {
			t := ref.Find(segs)
			nd.Assert((err == nil) == (t != nil), "C01/lstat-result")
			if err == nil && t != nil {
				nd.Assert(info.Name() == segs[len(segs)-1], "C01/lstat-name")
				nd.Assert(info.IsDir() == t.Dir, "C01/lstat-kind")
				if !t.Dir {
					nd.Assert(info.Size() == int64(len(t.Data)), "C01/lstat-size")
				}
			}
		}
	case zzWriter:
		c1 := nd.BytesUpTo("chunk1", 1)
		c2 := nd.BytesUpTo("chunk2", 1)
		// zero, one or two Write calls (a writer closed without any Write
		// leaves an empty file); both chunks go through ONE caller buffer that
		// is overwritten between and after the calls
		nw := nd.Choose("writes", 3)
		w, err := fs.Writer(p)
		var all []byte
		buf := make([]byte, 1)
		if err == nil {
			if nw >= 1 {
				n := copy(buf, c1)
				w.Write(buf[:n])
				all = append(all, c1...)
				buf[0] ^= 0xff
			}
			if nw >= 2 {
				n := copy(buf, c2)
				w.Write(buf[:n])
				all = append(all, c2...)
				buf[0] ^= 0xff
			}
			nd.Assert(w.Close() == nil, "C01/writer-close")
			buf[0] ^= 0x55
		} else {
			if nw >= 1 {
				all = append(all, c1...)
			}
			if nw >= 2 {
				all = append(all, c2...)
			}
		}
		if all == nil {
			all = []byte{}
		}
		if undefined || len(segs) == 0 {
			if len(segs) > 0 {
				ref.WriteFile(segs, all)
			}
			zzOpen(fs, before, ref, "C01/writer-open")
			return
		}
		t := ref.Find(segs)
		parentMissing := !ref.ParentExists(segs)
		ok := ref.WriteFile(segs, all)
		if parentMissing && ok {
			// creating parents is allowed but not required
			if err != nil {
				*ref = *before
			}
		} else {
			nd.Assert((err == nil) == ok, "C01/writer-result")
		}
		_ = t
	case zzReader:
		r, err := fs.Reader(p)
		if !undefined {
			t := ref.Find(segs)
			if t != nil && !t.Dir {
				nd.Assert(err == nil, "C01/reader-result")
				if err == nil {
					got, eof := zzReadAll(r, 1+nd.Choose("buf", 2))
					nd.Assert(eof, "C01/reader-eof")
					nd.Assert(bytes.Equal(got, t.Data), "C01/reader-bytes")
					nd.Assert(r.Close() == nil, "C01/reader-close")
				}
			} else {
				nd.Assert(err != nil, "C01/reader-result")
				if err == nil {
					r.Close()
				}
			}
		} else if err == nil {
			r.Close()
		}
	case zzCopyFile, zzCopyDir, zzCopy:
		var q string
		if zzTemplates {
			q = zzTemplatePath("dest")
		} else {
			q = nd.StringUpTo("q", L)
		}
		dsegs, dclimbs := reftree.Norm(q)
		if len(segs) == 0 {
			// source is the root: every destination lies inside the source,
			// which the statement does not cover
			nd.Assume(false)
		}
		var err error
		switch op {
		case zzCopyFile:
			err = fs.CopyFile(p, q)
		case zzCopyDir:
			err = fs.CopyDirectory(p, q)
		default:
			err = fs.Copy(p, q)
		}
		if undefined || dclimbs || len(dsegs) == 0 {
			// open: unchanged or (if computable) the clamped copy
			if len(dsegs) > 0 && !climbs {
				if s := ref.Find(segs); s != nil && !reftree.IsPrefix(segs, dsegs) {
					ref.CopyTo(s, dsegs)
				}
			}
			zzOpen(fs, before, ref, "C01/"+name+"-open")
			return
		}
		s := ref.Find(segs)
		kindOK := s != nil && (op == zzCopy || (op == zzCopyFile && !s.Dir) || (op == zzCopyDir && s.Dir))
		if !kindOK {
			nd.Assert(err != nil, "C01/"+name+"-badsrc-result")
			break
		}
		if reftree.IsPrefix(segs, dsegs) {
			// destination inside the source: not covered by the statement
			nd.Assume(false)
		}
		if ref.Find(dsegs) != nil {
			// destination exists: error&unchanged or replaced — open
			after := ref.Clone()
			after.RemoveAll(dsegs)
			after.CopyTo(s, dsegs)
			zzOpen(fs, before, after, "C01/"+name+"-dest-exists-open")
			if err == nil {
				*ref = *after
			}
			return
		}
		parentMissing := !ref.ParentExists(dsegs)
		ok := ref.CopyTo(s, dsegs)
		if parentMissing && ok {
			if err != nil {
				*ref = *before
			}
		} else {
			nd.Assert((err == nil) == ok, "C01/"+name+"-result")
		}
	}
	nd.Assert(reftree.Same(fs, ref, nil), "C01/"+name+"-tree")
	return false
}

// ZZVerifC01Hist: K operations with symbolic path spellings and contents from
// the empty filespace; result and whole observable tree compared with the
// reference after every step.
func ZZVerifC01Hist() {
	fs, err := NewFilespace()
	nd.Assert(err == nil, "C01/new")
	ref := reftree.NewRoot()
	k := nd.Param("K", 2)
	for i := 0; i < k; i++ {
		if zzStep(fs, ref, nd.Param("OPS", zzNOps)) {
			return
		}
	}
	nd.Reach("C01/hist-end")
}

// zzPrelude builds the fixed tree  a/ (a/f="1", a/d/)  g="22"  through the
// public API on both sides.
func zzPrelude(fs filesystem.Filespace, ref *reftree.Node) {
	nd.Assume(fs.WriteFile("a/f", []byte("1"), filesystem.DefaultUnixFileMode) == nil)
	nd.Assume(fs.MkdirAll("a/d", filesystem.DefaultUnixDirMode) == nil)
	nd.Assume(fs.WriteFile("g", []byte("22"), filesystem.DefaultUnixFileMode) == nil)
	ref.WriteFile([]string{"a", "f"}, []byte("1"))
	ref.MkdirAll([]string{"a", "d"})
	ref.WriteFile([]string{"g"}, []byte("22"))
}

// ZZVerifC01Tree: one or two symbolic operations on a populated tree (longer
// spellings reach existing nodes: "a/f", "a/..", "./g", "/a/d").
func ZZVerifC01Tree() {
	fs, _ := NewFilespace()
	ref := reftree.NewRoot()
	zzPrelude(fs, ref)
	nd.Assert(reftree.Same(fs, ref, nil), "C01/prelude-tree")
	k := nd.Param("K", 1)
	for i := 0; i < k; i++ {
		if zzStep(fs, ref, nd.Param("OPS", zzNOps)) {
			return
		}
	}
	nd.Reach("C01/tree-end")
}

// ZZVerifC01View: the same through a child view rooted at "a": every
// operation on q equals the parent's operation on a/q, and the rest of the
// parent is unchanged.
func ZZVerifC01View() {
	root, _ := NewFilespace()
	ref := reftree.NewRoot()
	zzPrelude(root, ref)
	view, err := root.Filespace("a")
	nd.Assert(err == nil, "C01/view-open")
	if err != nil {
		return
	}
	sub := ref.Find([]string{"a"})
	nd.Assert(reftree.Same(view, sub, nil), "C01/view-initial")
	if zzStep(view, sub, nd.Param("OPS", zzNOps)) {
		return
	}
	nd.Assert(reftree.Same(root, ref, nil), "C01/view-parent-tree")
	nd.Reach("C01/view-end")
}

// ZZVerifC01SubView: a view of a view ("child views at any depth"): from the
// view rooted at "a" a second view is opened with a symbolic spelling; what
// is written through it lands below a/<the spelling resolved inside the
// view> - for a spelling that climbs above the view's root the call is
// refused or resolves as if the surplus ".." were dropped - and in every case
// the tree outside "a" stays as it was.
func ZZVerifC01SubView() {
	root, _ := NewFilespace()
	ref := reftree.NewRoot()
	zzPrelude(root, ref)
	view, err := root.Filespace("a")
	nd.Assume(err == nil)
	p := nd.StringUpTo("p", nd.Param("SL", 4))
	for i := 0; i < len(p); i++ {
		nd.Assume(p[i] != 0)
	}
	sub, err := view.Filespace(p)
	segs, climbs := reftree.Norm(p)
	if err == nil {
		werr := sub.WriteFile("m", []byte("M"), filesystem.DefaultUnixFileMode)
		at := append([]string{"a"}, segs...)
		t := ref.Find(at)
		if werr == nil && t != nil && t.Dir {
			ref.WriteFile(append(append([]string{}, at...), "m"), []byte("M"))
			nd.Assert(reftree.Same(root, ref, nil), "C01/subview-write-lands-inside-the-view")
		} else {
			// a view opened on a missing node or on a file (if the call accepts
			// that): whatever the write did, it did it below "a"
			top, lerr := root.ReadDir(".")
			nd.Assert(lerr == nil && len(top) == 2, "C01/subview-outside-unchanged")
			g, gerr := root.ReadFile("g")
			nd.Assert(gerr == nil && string(g) == "22" && root.IsDir("a"), "C01/subview-outside-unchanged")
		}
		if climbs {
			nd.Reach("C01/subview-climbing-accepted")
		}
	} else {
		nd.Assert(reftree.Same(root, ref, nil), "C01/subview-refused-tree-unchanged")
	}
	nd.Reach("C01/subview-end")
}

// zzTemplates: the two-step harness draws its paths from structural templates
// over the existing names (a, a/f, a/d, g) and fresh names.
var zzTemplates bool

func zzTemplatePath(label string) string {
	switch nd.Choose(label, nd.Param("PT", 7)) {
	case 0:
		return "a/f"
	case 1:
		return "n"
	case 2:
		return "a"
	case 3:
		return "g"
	case 4:
		return "a/n"
	case 5:
		return "a/d"
	default:
		return "a/d/n"
	}
}

// ZZVerifC01Pairs: two-operation histories (any two of the 13 operation kinds)
// over the existing nodes and fresh names of the populated tree: the second
// operation meets the state the first one left (e.g. write after remove,
// mkdir after copy, remove after write below).
func ZZVerifC01Pairs() {
	fs, _ := NewFilespace()
	ref := reftree.NewRoot()
	zzPrelude(fs, ref)
	zzTemplates = true
	if zzStep(fs, ref, zzNOps) {
		return
	}
	if zzStep(fs, ref, zzNOps) {
		return
	}
	nd.Reach("C01/pairs-end")
}

// ZZVerifC01CopyDeep: copies are deep. The populated tree (with the empty
// directory a/d and the file a/f) is copied to b by either copy operation;
// then one symbolic operation is applied below the source or below the copy
// (through a child view, so that three-character spellings reach the nested
// nodes) and the whole tree is compared: nothing done on one side shows on
// the other.
func ZZVerifC01CopyDeep() {
	root, _ := NewFilespace()
	ref := reftree.NewRoot()
	zzPrelude(root, ref)
	var err error
	if nd.Bool("copydir") {
		err = root.CopyDirectory("a", "b")
	} else {
		err = root.Copy("a", "b")
	}
	nd.Assert(err == nil, "C01/copydeep-copy-result")
	nd.Assert(ref.CopyTo(ref.Find([]string{"a"}), []string{"b"}), "C01/ref")
	nd.Assert(reftree.Same(root, ref, nil), "C01/copydeep-copied-tree")
	side := "a"
	if nd.Bool("below-copy") {
		side = "b"
	}
	view, err := root.Filespace(side)
	nd.Assert(err == nil, "C01/view-open")
	if err != nil {
		return
	}
	sub := ref.Find([]string{side})
	if zzStep(view, sub, nd.Param("OPS", zzNOps)) {
		return
	}
	nd.Assert(reftree.Same(root, ref, nil), "C01/copydeep-other-side-unchanged")
	nd.Reach("C01/copydeep-end")
}

// ZZVerifC01Alias: byte slices and listings handed in or out are snapshots.
func ZZVerifC01Alias() {
	fs, _ := NewFilespace()
	which := nd.Choose("template", 5)
	switch which {
	case 0: // caller mutates its buffer after WriteFile
		buf := nd.Bytes("data", 2)
		orig := append([]byte{}, buf...)
		nd.Assume(fs.WriteFile("f", buf, filesystem.DefaultUnixFileMode) == nil)
		buf[0] ^= 0xff
		got, err := fs.ReadFile("f")
		nd.Assert(err == nil && bytes.Equal(got, orig), "C01/alias-write-buffer")
	case 1: // caller mutates a ReadFile result
		orig := nd.Bytes("data", 2)
		nd.Assume(fs.WriteFile("f", append([]byte{}, orig...), filesystem.DefaultUnixFileMode) == nil)
		got, _ := fs.ReadFile("f")
		got[0] ^= 0xff
		again, err := fs.ReadFile("f")
		nd.Assert(err == nil && bytes.Equal(again, orig), "C01/alias-read-result")
	case 2: // a listing is a snapshot: later removals do not change it
		n := 2 + nd.Choose("n", 2)
		names := []string{"f", "g", "h", "i"}[:n]
		for _, nm := range names {
			nd.Assume(fs.WriteFile(nm, []byte("x"), filesystem.DefaultUnixFileMode) == nil)
		}
		list, err := fs.ReadDir(".")
		nd.Assume(err == nil && len(list) == n)
		var snap []string
		for _, inf := range list {
			snap = append(snap, inf.Name())
		}
		victim := names[nd.Choose("victim", n)]
		nd.Assume(fs.Remove(victim) == nil)
		nd.Assert(len(list) == n, "C01/alias-listing-len")
		for i, inf := range list {
			nd.Assert(inf.Name() == snap[i], "C01/alias-listing-after-remove")
		}
	case 4: // overwrite: the caller mutates its buffer after replacing a file
		nd.Assume(fs.WriteFile("f", []byte("o"), filesystem.DefaultUnixFileMode) == nil)
		buf := nd.Bytes("data", 2)
		orig := append([]byte{}, buf...)
		nd.Assume(fs.WriteFile("f", buf, filesystem.DefaultUnixFileMode) == nil)
		buf[1] ^= 0xff
		got, err := fs.ReadFile("f")
		nd.Assert(err == nil && bytes.Equal(got, orig), "C01/alias-overwrite-buffer")
	case 3: // a listing is a snapshot: later creations do not change it
		nd.Assume(fs.WriteFile("f", []byte("x"), filesystem.DefaultUnixFileMode) == nil)
		list, err := fs.ReadDir(".")
		nd.Assume(err == nil && len(list) == 1)
		nd.Assume(fs.WriteFile("g", []byte("y"), filesystem.DefaultUnixFileMode) == nil)
		nd.Assume(fs.Remove("f") == nil)
		nd.Assert(len(list) == 1 && list[0].Name() == "f", "C01/alias-listing-after-create")
	}
	nd.Reach("C01/alias-end")
}
