//go:build verif

package scope

import (
	"errors"
	"sync"

	"github.com/goatcms/goatcore/app"
	"github.com/goatcms/goatcore/app/scope/contextscope"
	"github.com/goatcms/goatcore/zzverif/nd"
)

type zzEv struct {
	who   string // scope the event was fired for ("root", "child")
	event int
}

type zzLog struct {
	mu  sync.Mutex
	evs []zzEv
}

func (l *zzLog) add(who string, ev int) {
	l.mu.Lock()
	l.evs = append(l.evs, zzEv{who, ev})
	l.mu.Unlock()
}

func (l *zzLog) count(who string, ev int) int {
	n := 0
	for _, e := range l.evs {
		if e.who == who && e.event == ev {
			n++
		}
	}
	return n
}

func (l *zzLog) index(who string, ev int) int {
	for i, e := range l.evs {
		if e.who == who && e.event == ev {
			return i
		}
	}
	return -1
}

const zzTaskDone = 1000 // pseudo event: a task of the scope called DoneTask

var zzCloseEvents = []int{app.BeforeCloseEvent, app.BeforeCommitEvent, app.CommitEvent, app.AfterCommitEvent,
	app.BeforeRollbackEvent, app.RollbackEvent, app.AfterRollbackEvent, app.AfterCloseEvent}

// zzChildRef: the child scope (set when it exists) for the root's listeners.
var zzChildRef *app.Scope

// zzListen registers logging listeners for all close events of scp; the
// listener for (failWho, failEv) returns an error.
func zzListen(scp app.Scope, who string, log *zzLog, failWho string, failEv int) {
	for _, ev := range zzCloseEvents {
		ev := ev
		scp.On(ev, func(data interface{}) error {
			// the root's listeners also see the child's events: attribute by data
			if s, ok := data.(app.Scope); ok && s == scp {
				// the triple is chosen by the error state at this moment
				// (only for the root: nothing can add an error to it between
				// the end of its wait and this listener; a child shares or
				// watches the root's context, which may fail concurrently)
				if who == "root" && ev == app.BeforeCommitEvent {
					nd.Assert(len(scp.Errors()) == 0, "C11/"+who+"/commit-only-without-error")
				}
				if who == "root" && ev == app.BeforeRollbackEvent {
					nd.Assert(len(scp.Errors()) > 0, "C11/"+who+"/rollback-only-with-error")
				}
				log.add(who, ev)
				if who == failWho && ev == failEv {
					return errors.New("listener failed")
				}
			} else if ok && who == "root" && failWho == "root-for-child" && ev == failEv && zzChildRef != nil && s == *zzChildRef {
				// the ROOT's listener fails for an event of the CHILD (events of a
				// child are delivered to the parent's listeners too)
				log.add("child-via-root", ev)
				return errors.New("parent listener failed for the child's event")
			}
			return nil
		})
	}
}

// zzCheckProtocol asserts the close protocol on the log of one scope.
func zzCheckProtocol(log *zzLog, who string, label string) {
	c := func(ev int) int { return log.count(who, ev) }
	i := func(ev int) int { return log.index(who, ev) }
	nd.Assert(c(app.BeforeCloseEvent) == 1, label+"/before-close-once")
	nd.Assert(c(app.AfterCloseEvent) == 1, label+"/after-close-once")
	commit := c(app.BeforeCommitEvent) + c(app.CommitEvent) + c(app.AfterCommitEvent)
	rollback := c(app.BeforeRollbackEvent) + c(app.RollbackEvent) + c(app.AfterRollbackEvent)
	nd.Assert((commit == 3 && rollback == 0) || (commit == 0 && rollback == 3), label+"/commit-xor-rollback")
	if commit == 3 {
		nd.Assert(i(app.BeforeCloseEvent) < i(app.BeforeCommitEvent) && i(app.BeforeCommitEvent) < i(app.CommitEvent) &&
			i(app.CommitEvent) < i(app.AfterCommitEvent) && i(app.AfterCommitEvent) < i(app.AfterCloseEvent), label+"/commit-order")
	}
	if rollback == 3 {
		nd.Assert(i(app.BeforeCloseEvent) < i(app.BeforeRollbackEvent) && i(app.BeforeRollbackEvent) < i(app.RollbackEvent) &&
			i(app.RollbackEvent) < i(app.AfterRollbackEvent) && i(app.AfterRollbackEvent) < i(app.AfterCloseEvent), label+"/rollback-order")
	}
}

// ZZVerifC11Close: root scope with one task and (optionally) a shared or
// isolated child closed from another goroutine; listeners log the close
// events; one listener may fail; the task may append an error, kill or stop.
// Under every schedule with at most P preemptions the close protocol holds.
func ZZVerifC11Close() {
	nd.Schedule(nd.Param("P", 1))
	nd.Races()
	log := &zzLog{}
	shape := nd.Choose("shape", 3) // 0 root only, 1 shared child, 2 isolated child
	// which listener fails: the quick tier tries a representative subset
	candidates := zzCloseEvents
	if nd.Param("FL", 8) < 8 {
		candidates = []int{app.BeforeCloseEvent, app.CommitEvent, app.BeforeRollbackEvent, app.AfterCloseEvent}
	}
	failEvIdx := nd.Choose("fail-listener", len(candidates)+1)
	failWho, failEv := "", -1
	if failEvIdx < len(candidates) {
		failEv = candidates[failEvIdx]
		failWho = "root"
		if shape != 0 {
			failWho = []string{"root", "child", "root-for-child"}[nd.Choose("fail-on-child", 3)]
		}
	}
	root := New(Params{Name: "root"})
	zzListen(root, "root", log, failWho, failEv)
	var child app.Scope
	if shape != 0 {
		cp := ChildParams{Name: "child"}
		if shape == 2 {
			cp.ContextScope = contextscope.NewIsolated(root.BaseContextScope())
		}
		child = NewChild(root, cp)
		zzChildRef = &child
		zzListen(child, "child", log, failWho, failEv)
	}
	action := nd.IntRange("task-action", 0, 3) // 0 nothing, 1 append error, 2 kill, 3 stop (symbolic)
	onChild := shape != 0 && nd.Choose("action-on-child", 2) == 1
	nd.Assume(root.AddTasks(1) == nil)
	if onChild {
		// whoever acts on a scope holds a task of that scope
		nd.Assume(child.AddTasks(1) == nil)
	}
	var wg sync.WaitGroup
	taskErr := errors.New("task failed")
	wg.Add(1)
	go func() {
		defer wg.Done()
		target := root
		if onChild {
			target = child
		}
		switch action {
		case 1:
			target.AppendError(taskErr)
		case 2:
			target.Kill()
		case 3:
			target.Stop()
		}
		if onChild {
			child.DoneTask()
		}
		log.add("root", zzTaskDone)
		root.DoneTask()
	}()
	var childErr error
	if child != nil {
		wg.Add(1)
		go func() {
			defer wg.Done()
			childErr = child.Close()
		}()
	}
	rootErr := root.Close()
	wg.Wait()

	rootHasErr := len(root.Errors()) > 0
	zzCheckProtocol(log, "root", "C11/root")
	// (when a listener of the PARENT fails for an event of the child, the
	// delivery of that event stops there and the child's own listeners - which
	// write this log - do not see it: the child's log is then not complete)
	childLogComplete := failWho != "root-for-child"
	if child != nil && childLogComplete {
		zzCheckProtocol(log, "child", "C11/child")
	}
	// Close waited for the task and for the child
	nd.Assert(log.index("root", zzTaskDone) < log.index("root", app.BeforeCommitEvent) || log.count("root", app.BeforeCommitEvent) == 0, "C11/root/commit-after-task-done")
	nd.Assert(log.index("root", zzTaskDone) < log.index("root", app.BeforeRollbackEvent) || log.count("root", app.BeforeRollbackEvent) == 0, "C11/root/rollback-after-task-done")
	if child != nil && childLogComplete {
		ca := log.index("child", app.AfterCloseEvent)
		nd.Assert(ca >= 0, "C11/child/closed")
		rb := log.index("root", app.BeforeCommitEvent)
		if rb < 0 {
			rb = log.index("root", app.BeforeRollbackEvent)
		}
		nd.Assert(ca < rb, "C11/root/waits-for-child-close")
	}
	nd.Assert((rootErr != nil) == rootHasErr, "C11/root/close-error-iff-scope-error")
	if child != nil && failWho == "root-for-child" && log.count("child-via-root", failEv) >= 1 {
		// the child fired the event whose (parent-side) listener failed
		nd.Assert(childErr != nil, "C11/child/parent-listener-error-reported-by-close")
	}
	// shared vs isolated
	if child != nil && onChild && (action == 1 || action == 2) {
		if shape == 1 {
			nd.Assert(rootHasErr, "C11/shared-child-error-fails-parent")
		} else {
			nd.Assert(childErr != nil, "C11/isolated-child-fails")
			if failWho == "" {
				nd.Assert(!rootHasErr, "C11/isolated-child-error-does-not-fail-parent")
			}
		}
	}
	// closing twice is refused loudly and fires nothing
	before := len(log.evs)
	panicked := false
	func() {
		defer func() {
			if recover() != nil {
				panicked = true
			}
		}()
		root.Close()
	}()
	nd.Assert(panicked, "C11/second-close-refused")
	nd.Assert(len(log.evs) == before, "C11/second-close-fires-nothing")
	nd.Reach("C11/close-end")
}

// ZZVerifC11Seq: K symbolic append-error / kill / stop calls on the root or
// on a shared or isolated child, issued in any order before the scopes are
// closed (child first). An error or kill always fails the scope whose context
// it reaches - also after a stop -, a stop alone never does; the close
// protocol holds and Close reports an error iff the scope holds one.
func ZZVerifC11Seq() {
	nd.Schedule(nd.Param("SP", 0))
	nd.Races()
	log := &zzLog{}
	shape := nd.Choose("shape", 3) // 0 root only, 1 shared child, 2 isolated child
	root := New(Params{Name: "root"})
	zzListen(root, "root", log, "", -1)
	var child app.Scope
	if shape != 0 {
		cp := ChildParams{Name: "child"}
		if shape == 2 {
			cp.ContextScope = contextscope.NewIsolated(root.BaseContextScope())
		}
		child = NewChild(root, cp)
		zzListen(child, "child", log, "", -1)
	}
	rootFail, childFail := false, false
	// a task of the root that stays pending until the root is being closed
	pending := nd.Bool("pending-task-and-late-child")
	if pending {
		nd.Assume(root.AddTasks(1) == nil)
	}
	k := nd.Param("K", 3)
	n := nd.Choose("nops", k+1)
	for i := 0; i < n; i++ {
		kind := nd.IntRange("kind", 0, 2) // 0 append error, 1 kill, 2 stop (symbolic)
		target := root
		onChild := shape != 0 && nd.Choose("on-child", 2) == 1
		if onChild {
			target = child
		}
		switch kind {
		case 0:
			target.AppendError(errors.New("failed"))
		case 1:
			target.Kill()
		case 2:
			target.Stop()
		}
		if kind != 2 {
			if !onChild || shape == 1 {
				rootFail = true
			}
			if onChild || shape == 1 {
				childFail = true
			}
		}
	}
	var childErr error
	if child != nil {
		childErr = child.Close()
	}
	// a task of the root is still pending; meanwhile a child is created and
	// closed although the root may already be done (it is then refused as a
	// task of the root and must not sign off on it): the root's Close still
	// waits for the pending task
	var wg sync.WaitGroup
	if pending {
		late := NewChild(root, ChildParams{Name: "late"})
		late.Close()
		wg.Add(1)
		go func() {
			defer wg.Done()
			log.add("root", zzTaskDone)
			root.DoneTask()
		}()
	}
	rootErr := root.Close()
	wg.Wait()
	if pending {
		nd.Assert(log.index("root", zzTaskDone) < log.index("root", app.BeforeCommitEvent) || log.count("root", app.BeforeCommitEvent) == 0, "C11/seq/commit-after-pending-task")
		nd.Assert(log.index("root", zzTaskDone) < log.index("root", app.BeforeRollbackEvent) || log.count("root", app.BeforeRollbackEvent) == 0, "C11/seq/rollback-after-pending-task")
	}
	zzCheckProtocol(log, "root", "C11/seq/root")
	nd.Assert((rootErr != nil) == rootFail, "C11/seq/root-fails-iff-error-or-kill")
	nd.Assert((log.count("root", app.RollbackEvent) == 1) == rootFail, "C11/seq/root-rollback-iff-error-or-kill")
	nd.Assert((len(root.Errors()) > 0) == rootFail, "C11/seq/root-holds-error-iff-error-or-kill")
	if child != nil {
		zzCheckProtocol(log, "child", "C11/seq/child")
		if childFail {
			nd.Assert(childErr != nil, "C11/seq/child-fails-after-error-or-kill")
			nd.Assert(log.count("child", app.RollbackEvent) == 1, "C11/seq/child-rollback-after-error-or-kill")
		}
		// an isolated child of a failed root may or may not have been killed
		// by its watcher before it closed; otherwise it must succeed
		if !childFail && !(shape == 2 && rootFail) {
			nd.Assert(childErr == nil, "C11/seq/child-succeeds-without-error")
		}
	}
	nd.Reach("C11/seq-end")
}

// ZZVerifC11Reclose: "closing twice is refused loudly rather than repeating
// the events" also when the second Close arrives while the first is still
// running - from a listener of one of its own close events: the inner call
// panics (it neither blocks for ever nor runs the events again), the outer
// Close completes the protocol once; a Close after that is refused too.
func ZZVerifC11Reclose() {
	log := &zzLog{}
	root := New(Params{Name: "root"})
	var scp app.Scope = root
	who := "root"
	if nd.Bool("on-child") {
		scp = NewChild(root, ChildParams{Name: "child"})
		who = "child"
	}
	zzListen(scp, who, log, "", -1)
	at := []int{app.BeforeCloseEvent, app.CommitEvent, app.AfterCommitEvent, app.AfterCloseEvent}[nd.Choose("reclose-at", 4)]
	refused := false
	target := scp
	scp.On(at, func(data interface{}) error {
		if s, ok := data.(app.Scope); !ok || s != target {
			return nil
		}
		defer func() {
			if recover() != nil {
				refused = true
			}
		}()
		target.Close()
		return nil
	})
	nd.Assert(scp.Close() == nil, "C11/reclose/outer-close-ok")
	nd.Assert(refused, "C11/reclose/inner-close-refused-loudly")
	zzCheckProtocol(log, who, "C11/reclose")
	again := false
	func() {
		defer func() {
			if recover() != nil {
				again = true
			}
		}()
		scp.Close()
	}()
	nd.Assert(again, "C11/reclose/later-close-refused-loudly")
	zzCheckProtocol(log, who, "C11/reclose-after")
	nd.Reach("C11/reclose/end")
}
