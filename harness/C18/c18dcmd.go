//go:build verif

package dcmd

import (
	"bytes"

	"github.com/goatcms/goatcore/app/modules/commonm/commservices/envs"
	"github.com/goatcms/goatcore/zzverif/nd"
	"github.com/goatcms/goatcore/zzverif/shmodel"
)

// ZZVerifC18Container: the container sandbox start-up script assigns each
// configured variable exactly its configured value (up to trailing newlines).
func ZZVerifC18Container() {
	e := envs.NewEnvironments()
	v := nd.BytesUpTo("value", nd.Param("V", 3))
	for _, b := range v {
		nd.Assume(b != 0)
	}
	nd.Assume(e.Set("VAR", string(v)) == nil)
	two := nd.Choose("two", 2) == 1
	if two {
		nd.Assume(e.Set("OTHER", "o") == nil)
	}
	r, err := InitSequence(e)
	nd.Assert(err == nil, "C18/container/no-error")
	script := shmodel.ReadAll(r)
	tag := zzTag(script)
	got, ok := shmodel.Assigned(script, "VAR", tag)
	nd.Assert(ok && bytes.Equal(shmodel.TrimNL(got), shmodel.TrimNL(v)), "C18/container/value-verbatim")
	if two {
		got, ok := shmodel.Assigned(script, "OTHER", tag)
		nd.Assert(ok && bytes.Equal(got, []byte("o")), "C18/container/other-variable-intact")
	}
	// the terminator is drawn afresh for every script (a value that repeats
	// the terminator of an EARLIER script must still be data) and is long
	r2, err2 := InitSequence(e)
	nd.Assert(err2 == nil, "C18/container/no-error")
	tag2 := zzTag(shmodel.ReadAll(r2))
	nd.Assert(len(tag) >= 13 && len(tag2) >= 13 && tag != tag2, "C18/container/terminator-fresh-per-script")
	nd.Reach("C18/container/end")
}

func zzTag(script []byte) string {
	for i := 0; i+2 < len(script); i++ {
		if script[i] == '<' && script[i+1] == '<' {
			j := i + 2
			if script[j] == '\'' {
				j++
			}
			k := j
			for k < len(script) && script[k] >= 'A' && script[k] <= 'Z' {
				k++
			}
			return string(script[j:k])
		}
	}
	return "EOF"
}
