//go:build verif

package envs

import (
	"github.com/goatcms/goatcore/zzverif/nd"
)

// ZZVerifC18Names: every name accepted by Set is a plain shell identifier
// [A-Za-z_][A-Za-z0-9_]* (so it cannot carry shell syntax into the script).
func ZZVerifC18Names() {
	k := nd.StringUpTo("key", nd.Param("K", 4))
	e := NewEnvironments()
	err := e.Set(k, "v")
	if err == nil {
		nd.Assert(len(k) > 0, "C18/names/non-empty")
		for i := 0; i < len(k); i++ {
			c := k[i]
			letter := nd.Or(nd.Or(nd.And(c >= 'a', c <= 'z'), nd.And(c >= 'A', c <= 'Z')), c == '_')
			digit := nd.And(c >= '0', c <= '9')
			if i == 0 {
				nd.Assert(letter, "C18/names/identifier")
			} else {
				nd.Assert(nd.Or(letter, digit), "C18/names/identifier")
			}
		}
		nd.Reach("C18/names/accepted")
	}
	m := map[string]string{k: "v"}
	err2 := NewEnvironments().SetAll(m)
	nd.Assert((err == nil) == (err2 == nil), "C18/names/setall-agrees")
	// ... also in a batch beside good names, wherever the map walk meets it;
	// a refused batch stores nothing
	nd.MapOrder()
	e3 := NewEnvironments()
	err3 := e3.SetAll(map[string]string{"A": "1", k: "v", "C_b": "3"})
	nd.Assert((err == nil) == (err3 == nil), "C18/names/setall-batch-agrees")
	if err3 != nil {
		nd.Assert(len(e3.All()) == 0, "C18/names/refused-batch-stores-nothing")
	}
	// the caller keeps using (and changing) the map it handed over: what the
	// environments hold was validated when it was set
	own := map[string]string{"A": "1"}
	e4 := NewEnvironments()
	nd.Assert(e4.SetAll(own) == nil, "C18/names/setall-good")
	own[k] = "v"
	own["A"] = "2"
	all := e4.All()
	_, leaked := all[k]
	nd.Assert(!leaked || k == "A", "C18/names/caller-map-not-aliased")
	nd.Assert(all["A"] == "1" && e4.Get("A") == "1", "C18/names/caller-map-not-aliased")
	all["B"] = "x" // nor is the returned map the store itself
	nd.Assert(e4.Get("B") == "", "C18/names/returned-map-not-aliased")
	nd.Reach("C18/names/end")
}
