//go:build verif

package sshsb

import (
	"bytes"

	"github.com/goatcms/goatcore/app/modules/commonm/commservices/envs"
	"github.com/goatcms/goatcore/zzverif/nd"
	"github.com/goatcms/goatcore/zzverif/shmodel"
)

// ZZVerifC18SSH: the SSH sandbox start-up script assigns each configured
// variable exactly its configured value (up to trailing newlines).
func ZZVerifC18SSH() {
	e := envs.NewEnvironments()
	v := nd.BytesUpTo("value", nd.Param("V", 3))
	for _, b := range v {
		nd.Assume(b != 0)
	}
	nd.Assume(e.Set("VAR", string(v)) == nil)
	two := nd.Choose("two", 2) == 1
	if two {
		nd.Assume(e.Set("OTHER", "o") == nil)
	}
	sb := &SSHSandbox{entrypoint: "true"}
	r, err := sb.initSequence(e)
	nd.Assert(err == nil, "C18/ssh/no-error")
	script := shmodel.ReadAll(r)
	tag := zzTag(script)
	got, ok := shmodel.Assigned(script, "VAR", tag)
	nd.Assert(ok && bytes.Equal(shmodel.TrimNL(got), shmodel.TrimNL(v)), "C18/ssh/value-verbatim")
	if two {
		got, ok := shmodel.Assigned(script, "OTHER", tag)
		nd.Assert(ok && bytes.Equal(got, []byte("o")), "C18/ssh/other-variable-intact")
	}
	r2, err2 := sb.initSequence(e)
	nd.Assert(err2 == nil, "C18/ssh/no-error")
	tag2 := zzTag(shmodel.ReadAll(r2))
	nd.Assert(len(tag) >= 13 && len(tag2) >= 13 && tag != tag2, "C18/ssh/terminator-fresh-per-script")
	nd.Reach("C18/ssh/end")
}

// zzTag extracts the (concrete) heredoc terminator the script uses: the
// letters following the first "<<" (after an optional quote).
func zzTag(script []byte) string {
	for i := 0; i+2 < len(script); i++ {
		if script[i] == '<' && script[i+1] == '<' {
			j := i + 2
			if script[j] == '\'' {
				j++
			}
			k := j
			for k < len(script) && script[k] >= 'A' && script[k] <= 'Z' {
				k++
			}
			return string(script[j:k])
		}
	}
	return "EOF"
}
