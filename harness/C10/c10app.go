//go:build verif

package goatapp

import (
	"github.com/goatcms/goatcore/app"
	"github.com/goatcms/goatcore/app/dependency"
	"github.com/goatcms/goatcore/zzverif/nd"
)

type zzMarker struct{ id int }

// ZZVerifC10App: the application object registers itself in its provider as
// a DEFAULT: an explicit definition of the name "App" (instance or factory),
// made before or after the application is built and before the first
// resolution, always wins; without one the application itself is resolved.
func ZZVerifC10App() {
	dp := dependency.NewProvider(app.DependencyTagName)
	explicit := &zzMarker{1}
	kind := nd.IntRange("explicit-definition", 0, 2) // 0 none, 1 instance, 2 factory
	before := nd.Bool("defined-before-the-app-is-built")
	calls := 0
	define := func() error {
		switch kind {
		case 1:
			return dp.Set(app.AppService, explicit)
		case 2:
			return dp.AddFactory(app.AppService, func(app.DependencyProvider) (interface{}, error) {
				calls++
				return explicit, nil
			})
		}
		return nil
	}
	if before {
		nd.Assert(define() == nil, "C10/app-explicit-definition-accepted")
	}
	m, err := NewMockupApp(Params{DP: dp})
	nd.Assume(err == nil)
	if !before {
		nd.Assert(define() == nil, "C10/app-explicit-definition-accepted")
	}
	got, err := dp.Get(app.AppService)
	nd.Assert(err == nil, "C10/app-resolves")
	if kind == 0 {
		nd.Assert(got == interface{}(m.App), "C10/app-default-is-the-application")
	} else {
		nd.Assert(got == interface{}(explicit), "C10/app-explicit-wins-over-default")
		if kind == 2 {
			nd.Assert(calls == 1, "C10/app-factory-runs-once")
		}
	}
	nd.Reach("C10/app-end")
}
