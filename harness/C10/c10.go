//go:build verif

package dependency

import (
	"errors"

	"github.com/goatcms/goatcore/app"
	"github.com/goatcms/goatcore/zzverif/nd"
)

var zzNames = []string{"a", "b", "c"}

type zzObj struct{ fid, inv int }

type zzEdge struct {
	name     int
	required bool
}

type zzFactory struct {
	id    int
	count int
	fail  bool
	deps  []zzEdge
}

func (f *zzFactory) fn() app.Factory {
	return func(dp app.DependencyProvider) (interface{}, error) {
		f.count++
		inv := f.count
		for _, e := range f.deps {
			_, err := dp.Get(zzNames[e.name])
			if err != nil && e.required {
				return nil, err
			}
		}
		if f.fail {
			return nil, errors.New("factory failed")
		}
		return &zzObj{f.id, inv}, nil
	}
}

// definition slot of the reference container
type zzDef struct {
	kind    int // 0 none, 1 instance, 2 factory
	inst    *zzObj
	factory *zzFactory
}

// reference container (DESIGN Appendix E)
type zzRef struct {
	explicit, deflt [3]zzDef
	memo            map[*zzFactory]int // invocation number that produced the memoised instance
	count           map[*zzFactory]int
	stack           []int
}

func (r *zzRef) effective(n int) zzDef {
	if r.explicit[n].kind != 0 {
		return r.explicit[n]
	}
	return r.deflt[n]
}

// get returns (fid, inv, ok) of the instance.
func (r *zzRef) get(n int) (int, int, bool) {
	d := r.effective(n)
	switch d.kind {
	case 0:
		return 0, 0, false
	case 1:
		return d.inst.fid, d.inst.inv, true
	}
	f := d.factory
	if inv, ok := r.memo[f]; ok {
		return f.id, inv, true
	}
	for _, s := range r.stack {
		if s == n {
			return 0, 0, false // cycle
		}
	}
	r.stack = append(r.stack, n)
	r.count[f]++
	inv := r.count[f]
	for _, e := range f.deps {
		_, _, ok := r.get(e.name)
		if !ok && e.required {
			r.stack = r.stack[:len(r.stack)-1]
			return 0, 0, false
		}
	}
	r.stack = r.stack[:len(r.stack)-1]
	if f.fail {
		return 0, 0, false
	}
	r.memo[f] = inv
	return f.id, inv, true
}

type zzTarget struct {
	A interface{} `dependency:"a"`
	B interface{} `dependency:"?b"`
	C interface{} `dependency:"?c"`
}

// zzSeen remembers the first instance the real container handed out per
// factory / instance id: every later request must yield the same pointer.
var zzSeen map[int]*zzObj

// zzTarget2 lists an optional field before the required one.
type zzTarget2 struct {
	B interface{} `dependency:"?b"`
	A interface{} `dependency:"a"`
}

func zzSame(got interface{}, fid, inv int) bool {
	o, ok := got.(*zzObj)
	if !ok || o == nil || o.fid != fid {
		return false
	}
	if prev, seen := zzSeen[fid]; seen {
		return prev == o
	}
	zzSeen[fid] = o
	return true
}

// ZZVerifC10Hist: any set of definitions over a pool of three names
// (explicit and/or default, instance or factory, either registration
// order), generated factories with dependency edges (cyclic graphs arise by
// choice), failing and optional edges, then a sequence of Get / InjectTo
// requests; results, instance identity and factory invocation counts are
// compared with the reference container.
func ZZVerifC10Hist() {
	zzSeen = map[int]*zzObj{}
	dp := NewProvider("dependency")
	ref := &zzRef{memo: map[*zzFactory]int{}, count: map[*zzFactory]int{}}
	nfac := 0
	var facs []*zzFactory
	nn := nd.Param("N", 2) // names in use
	maxDeps := nd.Param("E", 1)
	maxFac := nd.Param("MF", 2)
	mkFactory := func() *zzFactory {
		nd.Assume(nfac < maxFac)
		f := &zzFactory{id: nfac, fail: nd.Bool("fail")}
		nfac++
		ne := nd.Choose("nedges", maxDeps+1)
		for i := 0; i < ne; i++ {
			f.deps = append(f.deps, zzEdge{name: nd.Choose("edge", nn), required: nd.Choose("required", 2) == 1})
		}
		facs = append(facs, f)
		return f
	}
	for n := 0; n < nn; n++ {
		ek := nd.Choose("explicit", 3)
		dk := nd.Choose("default", 3)
		explicitFirst := true
		if ek != 0 && dk != 0 {
			explicitFirst = nd.Choose("order", 2) == 0
		}
		defExplicit := func() {
			switch ek {
			case 1:
				o := &zzObj{fid: -1 - n, inv: 0}
				ref.explicit[n] = zzDef{kind: 1, inst: o}
				nd.Assert(dp.Set(zzNames[n], o) == nil, "C10/def-set-accepted")
			case 2:
				f := mkFactory()
				ref.explicit[n] = zzDef{kind: 2, factory: f}
				nd.Assert(dp.AddFactory(zzNames[n], f.fn()) == nil, "C10/def-addfactory-accepted")
			}
		}
		defDefault := func() {
			switch dk {
			case 1:
				o := &zzObj{fid: -11 - n, inv: 0}
				ref.deflt[n] = zzDef{kind: 1, inst: o}
				nd.Assert(dp.SetDefault(zzNames[n], o) == nil, "C10/def-setdefault-accepted")
			case 2:
				f := mkFactory()
				ref.deflt[n] = zzDef{kind: 2, factory: f}
				nd.Assert(dp.AddDefaultFactory(zzNames[n], f.fn()) == nil, "C10/def-adddefaultfactory-accepted")
			}
		}
		if explicitFirst {
			defExplicit()
			defDefault()
		} else {
			defDefault()
			defExplicit()
		}
	}
	// nothing is constructed before the first request (lazy)
	for _, f := range facs {
		nd.Assert(f.count == 0, "C10/lazy-no-eager-construction")
	}
	reqs := nd.Param("R", 2)
	for i := 0; i < reqs; i++ {
		reqKind := nd.Choose("req", 3)
		if reqKind == 2 {
			// injection into a struct whose optional field precedes the
			// required one
			var t zzTarget2
			err := dp.InjectTo(&t)
			wantErr := false
			if nn >= 2 {
				if fid, inv, ok := ref.get(1); ok {
					nd.Assert(zzSame(t.B, fid, inv), "C10/inject2-optional-field")
				} else {
					nd.Assert(t.B == nil, "C10/inject2-optional-missing-left")
				}
			}
			if fid, inv, ok := ref.get(0); ok {
				nd.Assert(zzSame(t.A, fid, inv), "C10/inject2-required-field")
			} else {
				wantErr = true
			}
			nd.Assert((err != nil) == wantErr, "C10/inject2-result")
			continue
		}
		if reqKind == 0 {
			n := nd.Choose("name", nn)
			got, err := dp.Get(zzNames[n])
			fid, inv, ok := ref.get(n)
			nd.Assert((err == nil) == ok, "C10/get-result")
			if err == nil && ok {
				nd.Assert(zzSame(got, fid, inv), "C10/get-instance")
			}
		} else {
			var t zzTarget
			err := dp.InjectTo(&t)
			fields := []*interface{}{&t.A, &t.B, &t.C}
			wantErr := false
			for n := 0; n < 3; n++ {
				if n >= nn {
					// undefined names: required a is always in range (nn >= 1)
					nd.Assert(*fields[n] == nil, "C10/inject-undefined-optional-left")
					continue
				}
				fid, inv, ok := ref.get(n)
				if !ok {
					if n == 0 {
						wantErr = true
						break
					}
					if !wantErr {
						nd.Assert(*fields[n] == nil, "C10/inject-optional-missing-left")
					}
					continue
				}
				nd.Assert(zzSame(*fields[n], fid, inv), "C10/inject-field")
			}
			nd.Log("inject err=", err != nil, " want=", wantErr, " A=", t.A != nil, " B=", t.B != nil)
			nd.Assert((err != nil) == wantErr, "C10/inject-result")
		}
		// after the first resolution every definition is refused
		if i == 0 {
			o := &zzObj{fid: -99}
			late := &zzFactory{id: 99}
			// ... for every name, defined or not, resolved or still pending; a
			// refused definition changes nothing (the later requests are
			// compared with the unchanged reference)
			for _, ln := range zzNames[:3] {
				nd.Assert(dp.Set(ln, o) != nil, "C10/late-set-refused")
				nd.Assert(dp.SetDefault(ln, o) != nil, "C10/late-setdefault-refused")
				nd.Assert(dp.AddFactory(ln, late.fn()) != nil, "C10/late-addfactory-refused")
				nd.Assert(dp.AddDefaultFactory(ln, late.fn()) != nil, "C10/late-adddefaultfactory-refused")
			}
		}
	}
	for _, f := range facs {
		if _, produced := ref.memo[f]; produced {
			// once it has produced an instance it never runs again; before
			// that, failed attempts are re-run exactly as in the reference
			nd.Assert(f.count == ref.count[f], "C10/factory-invocation-count")
		} else {
			// a factory that never produced an instance: only laziness is fixed
			nd.Assert((f.count > 0) == (ref.count[f] > 0), "C10/factory-lazy")
		}
	}
	nd.Reach("C10/hist-end")
}
