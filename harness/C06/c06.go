//go:build verif

// Package c06: write-back cache (C06 commit semantics, C07 read-your-writes).
package c06

import (
	"bytes"
	"github.com/goatcms/goatcore/filesystem"
	"github.com/goatcms/goatcore/filesystem/fscache"
	"github.com/goatcms/goatcore/zzverif/nd"
	"github.com/goatcms/goatcore/zzverif/reftree"
)

const (
	oWriteFile = iota
	oWriter
	oMkdirAll
	oRemove
	oRemoveAll
	oCopyFile
	oCopyDir
	oCopy
	oNOps
)

var zzOp = []string{"writefile", "writer", "mkdirall", "remove", "removeall", "copyfile", "copydir", "copy"}

// zzName: a fresh symbolic 1-byte node name (may alias an existing name; the
// solver decides).
func zzName() string {
	n := nd.String("name", 1)
	nd.Assume(nd.And(n != "/", n != "."))
	nd.Assume(n[0] != 0)
	return n
}

// zzPath: a path spelling from structural templates over the existing names
// (a, a/x, a/d, g) and fresh symbolic names.
// zzT / zzOps: number of path templates and operation kinds in use (set by
// the entry points from their own parameters).
var zzT, zzOps = 9, oNOps

// zzOpBase: first operation kind in use; zzStepCfg (if set) reconfigures
// templates and kinds before step i.
var zzOpBase = 0
var zzStepCfg func(i int)

func zzPath(label string) string {
	switch nd.Choose(label, zzT) {
	case 0:
		return "a"
	case 1:
		return "a/x"
	case 2:
		return "g"
	case 3:
		return zzName()
	case 4:
		return "a/" + zzName()
	case 5:
		return "a/d"
	case 6:
		return zzName() + "/" + zzName()
	case 7:
		return "./g"
	default:
		return "a/../g"
	}
}

// zzInitial: the remote's initial tree  a/x="1", a/d/, g="22".
func zzInitial() *reftree.Node {
	r := reftree.NewRoot()
	r.WriteFile([]string{"a", "x"}, []byte("1"))
	r.MkdirAll([]string{"a", "d"})
	r.WriteFile([]string{"g"}, []byte("22"))
	return r
}

// zzApply performs one cache operation and, if the cache reports success,
// the same operation on the twin B. It returns the operation name and whether
// the step is inside the statement (both sides accept it).
func zzApply(c filesystem.Filespace, b *reftree.Node) (string, bool) {
	op := zzOpBase + nd.Choose("op", zzOps)
	p := zzPath("path")
	segs, climbs := reftree.Norm(p)
	if climbs || len(segs) == 0 {
		return zzOp[op], false
	}
	var err error
	okB := false
	switch op {
	case oWriteFile:
		data := nd.BytesUpTo("data", 1)
		err = c.WriteFile(p, data, filesystem.DefaultUnixFileMode)
		if err == nil {
			okB = b.WriteFile(segs, data)
		}
	case oWriter:
		data := nd.BytesUpTo("data", 1)
		var w filesystem.Writer
		w, err = c.Writer(p)
		if err == nil {
			w.Write(data)
			err = w.Close()
		}
		if err == nil {
			okB = b.WriteFile(segs, data)
		}
	case oMkdirAll:
		err = c.MkdirAll(p, filesystem.DefaultUnixDirMode)
		if err == nil {
			okB = b.MkdirAll(segs)
		}
	case oRemove:
		err = c.Remove(p)
		if err == nil {
			okB = b.Remove(segs)
		}
	case oRemoveAll:
		err = c.RemoveAll(p)
		if err == nil {
			okB = b.RemoveAll(segs) || b.Find(segs) == nil
		}
	case oCopyFile, oCopyDir, oCopy:
		q := zzPath("dest")
		dsegs, dclimbs := reftree.Norm(q)
		if dclimbs || len(dsegs) == 0 || reftree.IsPrefix(segs, dsegs) {
			return zzOp[op], false
		}
		switch op {
		case oCopyFile:
			err = c.CopyFile(p, q)
		case oCopyDir:
			err = c.CopyDirectory(p, q)
		default:
			err = c.Copy(p, q)
		}
		if err == nil {
			s := b.Find(segs)
			if s != nil && (op == oCopy || (op == oCopyFile) == !s.Dir) && b.Find(dsegs) == nil {
				okB = b.CopyTo(s, dsegs)
			}
		}
	}
	// a REFUSED operation is no operation: the history goes on with the twin
	// unchanged ("the same successful operations")
	zzRefused = err != nil
	return zzOp[op], err == nil && okB
}

// zzRefused: the last zzApply was refused by the cache.
var zzRefused bool

// ZZVerifC06Commit: K cache operations with overlapping paths, then Commit
// (optionally with one injected remote failure and a retry): the remote is
// untouched before Commit and equals the twin afterwards.
func ZZVerifC06Commit() {
	zzT, zzOps = nd.Param("T", 9), nd.Param("OPS", oNOps)
	zzCommit(nd.Param("K", 2), nd.Param("F", 1))
}

// ZZVerifC06Pairs: two-operation histories over the three existing paths and
// the five non-copy operations (cheap enough for the quick tier).
func ZZVerifC06Pairs() {
	zzT, zzOps = nd.Param("PT", 3), nd.Param("POPS", 5)
	zzCommit(nd.Param("PK", 2), nd.Param("PF", 1))
}

// zzThenCopyCfg: step 0 is one of the five non-copy operations over the six
// templates a, a/x, g, <fresh>, a/<fresh>, a/d; step 1 is one of the three
// copy operations whose source and destination range over a, a/x, g and a
// fresh name - so that a directory which lives partly in the buffer and
// partly on the remote (or lost a child in the cache) is copied.
func zzThenCopyCfg(i int) {
	if i == 0 {
		zzOpBase, zzOps, zzT = 0, 5, 6
	} else {
		zzOpBase, zzOps, zzT = oCopyFile, 3, 4
	}
}

// ZZVerifC06ThenCopy: a non-copy operation followed by a copy, then Commit.
func ZZVerifC06ThenCopy() {
	zzStepCfg = zzThenCopyCfg
	zzCommit(2, nd.Param("CF", 0))
}

// ZZVerifC07ThenCopy: a non-copy operation followed by a copy; the view is
// compared after each.
func ZZVerifC07ThenCopy() {
	zzStepCfg = zzThenCopyCfg
	zzRYW(2)
}

// ZZVerifC06TwoCommits: three operations (write, mkdir, remove over the
// paths n, n/m and g - n is fresh, g exists on the remote), a Commit, one more
// write, a second Commit: both commits succeed and leave the remote equal to
// the twin (nothing journalled for the first commit is replayed by the
// second).
func ZZVerifC06TwoCommits() {
	remote := reftree.NewFS(zzInitial())
	b := zzInitial()
	c, err := fscache.NewMemCache(remote)
	nd.Assume(err == nil)
	paths := []string{"n", "n/m", "g"}
	step := func(ops int) bool {
		op := nd.Choose("op", ops)
		p := paths[nd.Choose("path", len(paths))]
		segs, _ := reftree.Norm(p)
		switch op {
		case 0:
			data := nd.BytesUpTo("data", 1)
			return c.WriteFile(p, data, filesystem.DefaultUnixFileMode) == nil && b.WriteFile(segs, data)
		case 1:
			return c.Remove(p) == nil && b.Remove(segs)
		default:
			return c.MkdirAll(p, filesystem.DefaultUnixDirMode) == nil && b.MkdirAll(segs)
		}
	}
	for i := 0; i < nd.Param("TK", 3); i++ {
		nd.Assume(step(3))
	}
	nd.Assert(c.Commit() == nil, "C06/twocommits-first-commit-succeeds")
	nd.Assert(reftree.Same(remote, b, nil), "C06/twocommits-first-commit-tree")
	nd.Assume(step(1))
	nd.Assert(c.Commit() == nil, "C06/twocommits-second-commit-succeeds")
	nd.Assert(reftree.Same(remote, b, nil), "C06/twocommits-second-commit-tree")
	nd.Reach("C06/twocommits-end")
}

// ZZVerifC06Spelled: an operation given a non-canonical spelling of an
// existing node (/a, ./a, a/, a/., /a/x, ./g, a/../g), then a copy out of that
// region to a fresh name, then Commit: the journals are keyed like the reads
// - what was removed under one spelling is gone under every spelling, also as
// a copy source - and the remote ends equal to the twin.
func ZZVerifC06Spelled() {
	remote := reftree.NewFS(zzInitial())
	b := zzInitial()
	c, err := fscache.NewMemCache(remote)
	nd.Assume(err == nil)
	p := []string{"/a", "./a", "a/", "a/.", "/a/x", "./g", "a/../g", "/a/d/"}[nd.Choose("spelling", 8)]
	segs, _ := reftree.Norm(p)
	hist := ""
	switch nd.Choose("op", 4) {
	case 0:
		hist = "removeall"
		if c.RemoveAll(p) == nil {
			nd.Assume(b.RemoveAll(segs) || b.Find(segs) == nil)
		}
	case 1:
		hist = "remove"
		if c.Remove(p) == nil {
			nd.Assume(b.Remove(segs))
		}
	case 2:
		hist = "writefile"
		if c.WriteFile(p, []byte("w"), filesystem.DefaultUnixFileMode) == nil {
			nd.Assume(b.WriteFile(segs, []byte("w")))
		}
	default:
		hist = "mkdirall"
		if c.MkdirAll(p, filesystem.DefaultUnixDirMode) == nil {
			nd.Assume(b.MkdirAll(segs))
		}
	}
	src := []string{"a", "a/x", "g", "a/d"}[nd.Choose("source", 4)]
	ssegs, _ := reftree.Norm(src)
	kind := nd.Choose("copy", 3)
	switch kind {
	case 0:
		err = c.Copy(src, "n")
	case 1:
		err = c.CopyFile(src, "n")
	default:
		err = c.CopyDirectory(src, "n")
	}
	if err == nil {
		t := b.Find(ssegs)
		// nothing can be copied from a node that does not exist any more
		nd.Assert(t != nil, "C06/spelled/copy-of-a-removed-source-accepted/"+hist)
		if t == nil {
			return
		}
		nd.Assume(kind == 0 || (kind == 1) == !t.Dir)
		nd.Assume(b.CopyTo(t, []string{"n"}))
	}
	nd.Assert(reftree.Same(c, b, nil), "C06/spelled/view-before-commit/"+hist)
	nd.Assert(c.Commit() == nil, "C06/spelled/commit-succeeds/"+hist)
	nd.Assert(reftree.Same(remote, b, nil), "C06/spelled/commit-tree/"+hist)
	nd.Reach("C06/spelled-end")
}

func zzCommit(k, f int) {
	r0 := zzInitial()
	remote := reftree.NewFS(zzInitial())
	b := zzInitial()
	c, err := fscache.NewMemCache(remote)
	nd.Assume(err == nil)
	hist := ""
	for i := 0; i < k; i++ {
		if zzStepCfg != nil {
			zzStepCfg(i)
		}
		zzRefused = false
		name, inside := zzApply(c, b)
		if zzRefused {
			name += "(refused)"
		} else {
			nd.Assume(inside)
		}
		if i > 0 {
			hist += "+"
		}
		hist += name
		nd.Assert(*remote.Mutations == 0, "C06/remote-untouched-before-commit")
	}
	nd.Assert(reftree.Same(remote, r0, nil), "C06/remote-tree-unchanged-before-commit")
	failAt := nd.Choose("failat", f+1) - 1
	*remote.Calls = 0
	*remote.FailAt = failAt
	err = c.Commit()
	hit := failAt >= 0 && *remote.Calls > failAt
	*remote.FailAt = -1
	if hit {
		nd.Assert(err != nil, "C06/commit-reports-remote-failure")
		err = c.Commit()
		nd.Assert(err == nil, "C06/retry-commit-succeeds/"+hist)
		if err == nil {
			nd.Assert(reftree.Same(remote, b, nil), "C06/retry-commit-tree/"+hist)
		}
		nd.Reach("C06/fault-hit")
	} else {
		nd.Assert(err == nil, "C06/commit-succeeds/"+hist)
		if err == nil {
			nd.Assert(reftree.Same(remote, b, nil), "C06/commit-tree/"+hist)
			nd.Assert(c.Commit() == nil, "C06/second-commit-succeeds/"+hist)
			nd.Assert(reftree.Same(remote, b, nil), "C06/second-commit-tree/"+hist)
		}
	}
	nd.Reach("C06/commit-end")
}

// ZZVerifC07ReadYourWrites: before Commit every read-type operation through
// the cache (and through a child view of it) answers as if the pending
// operations had been applied on top of the remote.
func ZZVerifC07ReadYourWrites() {
	zzT, zzOps = nd.Param("T", 9), nd.Param("OPS", oNOps)
	zzRYW(nd.Param("K", 1))
}

// ZZVerifC07Pairs: two-operation histories over the three existing paths and
// the five non-copy operations (cheap enough for the quick tier).
func ZZVerifC07Pairs() {
	zzT, zzOps = nd.Param("PT", 3), nd.Param("POPS", 5)
	zzRYW(nd.Param("PK", 2))
}

func zzRYW(k int) {
	remote := reftree.NewFS(zzInitial())
	b := zzInitial()
	c, err := fscache.NewMemCache(remote)
	nd.Assume(err == nil)
	nd.Assert(reftree.Same(c, b, nil), "C07/initial-view")
	hist := ""
	for i := 0; i < k; i++ {
		if zzStepCfg != nil {
			zzStepCfg(i)
		}
		zzRefused = false
		name, inside := zzApply(c, b)
		if zzRefused {
			name += "(refused)"
		} else {
			nd.Assume(inside)
		}
		if i > 0 {
			hist += "+"
		}
		hist += name
		nd.Assert(reftree.Same(c, b, nil), "C07/view-after/"+hist)
	}
	// the same answers through other spellings of the paths (leading "/",
	// leading "./"): a pending removal hides the node for every spelling
	for _, q := range [][]string{{"g"}, {"a", "x"}, {"a"}, {"a", "d"}} {
		t := b.Find(q)
		for _, pre := range []string{"/", "./"} {
			sp := pre + reftree.Join(q)
			nd.Assert(c.IsExist(sp) == (t != nil), "C07/spelling-isexist/"+hist)
			nd.Assert(c.IsFile(sp) == (t != nil && !t.Dir), "C07/spelling-isfile/"+hist)
			nd.Assert(c.IsDir(sp) == (t != nil && t.Dir), "C07/spelling-isdir/"+hist)
			_, lerr := c.Lstat(sp)
			nd.Assert((lerr == nil) == (t != nil), "C07/spelling-lstat/"+hist)
			d, rerr := c.ReadFile(sp)
			nd.Assert((rerr == nil) == (t != nil && !t.Dir), "C07/spelling-readfile/"+hist)
			if rerr == nil && t != nil && !t.Dir {
				nd.Assert(bytes.Equal(d, t.Data), "C07/spelling-readfile-data/"+hist)
			}
			if r, err := c.Reader(sp); err == nil {
				r.Close()
				nd.Assert(t != nil && !t.Dir, "C07/spelling-reader/"+hist)
			}
		}
	}
	// through a child view of the cache
	if sub := b.Find([]string{"a"}); sub != nil && sub.Dir {
		v, err := c.Filespace("a")
		if err == nil {
			nd.Assert(reftree.Same(v, sub, nil), "C07/child-view-after/"+hist)
		}
	}
	nd.Reach("C07/ryw-end")
}
