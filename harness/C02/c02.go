//go:build verif

// Package c02: the disk filespace against the in-memory one.
package c02

import (
	"bytes"
	"io"
	"io/ioutil"
	"os"

	"github.com/goatcms/goatcore/filesystem"
	"github.com/goatcms/goatcore/filesystem/filespace/diskfs"
	"github.com/goatcms/goatcore/filesystem/filespace/memfs"
	"github.com/goatcms/goatcore/zzverif/hostfs"
	"github.com/goatcms/goatcore/zzverif/nd"
	"github.com/goatcms/goatcore/zzverif/reftree"
)

const (
	oWriteFile = iota
	oMkdirAll
	oRemove
	oRemoveAll
	oReadFile
	oReadDir
	oQuery
	oLstat
	oWriter
	oReader
	oCopyFile
	oCopyDir
	oCopy
	oNOps
)

var zzOp = []string{"writefile", "mkdirall", "remove", "removeall", "readfile", "readdir", "query", "lstat", "writer", "reader", "copyfile", "copydir", "copy"}

// zzHost: where the disk filespace lives. Under the engine it is /r of the
// host model (with a marker file next to it); natively a scratch directory.
type zzHost struct {
	base string // parent directory holding r/ and other/m
}

func zzNewHost() *zzHost {
	h := &zzHost{base: ""}
	if nd.Concrete() {
		d, err := os.MkdirTemp("", "zzc02")
		nd.Assume(err == nil)
		h.base = d
	}
	nd.Assume(os.MkdirAll(h.base+"/r", 0755) == nil)
	nd.Assume(os.MkdirAll(h.base+"/other", 0755) == nil)
	nd.Assume(ioutil.WriteFile(h.base+"/other/m", []byte("M"), 0644) == nil)
	return h
}

func (h *zzHost) cleanup() {
	if nd.Concrete() && h.base != "" {
		os.RemoveAll(h.base)
	}
}

// outsideIntact: everything next to the filespace root is unchanged.
func (h *zzHost) outsideIntact() bool {
	d, err := ioutil.ReadFile(h.base + "/other/m")
	if err != nil || !bytes.Equal(d, []byte("M")) {
		return false
	}
	l, err := ioutil.ReadDir(h.base + "/other")
	if err != nil || len(l) != 1 {
		return false
	}
	top, err := ioutil.ReadDir(h.base + "/")
	if err != nil {
		return false
	}
	if !nd.Concrete() {
		// the model logs every path handed to the "kernel"
		_ = hostfs.Log
	}
	// (removing the filespace root itself is not counted as "outside")
	return len(top) <= 2
}

func zzReadAll(r io.Reader, bufSize int) ([]byte, bool) {
	var out []byte
	buf := make([]byte, bufSize)
	for i := 0; i < 64; i++ {
		n, err := r.Read(buf)
		out = append(out, buf[:n]...)
		if err == io.EOF {
			return out, true
		}
		if err != nil {
			return out, false
		}
	}
	return out, false
}

// zzPrelude: a/f="1", a/d/h="3" (nested), g="22" on every side.
func zzPrelude(fss []filesystem.Filespace, ref *reftree.Node) {
	for _, fs := range fss {
		nd.Assume(fs.WriteFile("a/f", []byte("1"), filesystem.DefaultUnixFileMode) == nil)
		nd.Assume(fs.WriteFile("a/d/h", []byte("3"), filesystem.DefaultUnixFileMode) == nil)
		nd.Assume(fs.WriteFile("g", []byte("22"), filesystem.DefaultUnixFileMode) == nil)
	}
	ref.WriteFile([]string{"a", "f"}, []byte("1"))
	ref.WriteFile([]string{"a", "d", "h"}, []byte("3"))
	ref.WriteFile([]string{"g"}, []byte("22"))
}

func noFileOnWay(ref *reftree.Node, segs []string) bool {
	cur := ref
	for _, s := range segs[:len(segs)-1] {
		k := cur.Child(s)
		if k == nil {
			return true
		}
		if !k.Dir {
			return false
		}
		cur = k
	}
	return true
}

// zzStep performs one operation on the disk filespace and on the memory
// filespace. It returns false when the step was outside the preconditions of
// the statement (the backends may then legitimately differ; only "no panic,
// nothing outside changed" is asserted and the history ends).
func zzStep(h *zzHost, disk, mem filesystem.Filespace, ref *reftree.Node) bool {
	var op int
	if zzOpSet != nil {
		op = zzOpSet[nd.Choose("opidx", len(zzOpSet))]
	} else {
		op = nd.Choose("op", nd.Param("OPS", oNOps))
	}
	name := zzOp[op]
	L := nd.Param("L", 3)
	var p string
	if zzTemplates {
		p = zzTemplatePath("path")
	} else {
		p = nd.StringUpTo("p", L)
	}
	for i := 0; i < len(p); i++ {
		nd.Assume(p[i] != 0) // NUL cannot be part of a host path
	}
	segs, climbs := reftree.Norm(p)
	inside := !climbs
	// refuse: the operation addresses a node of the wrong kind or a missing
	// source; both backends must report an error and leave the tree as it is
	refuse := false
	var dErr, mErr error
	switch op {
	case oWriteFile:
		data := nd.BytesUpTo("data", 1)
		dErr, mErr = disk.WriteFile(p, data, filesystem.DefaultUnixFileMode), mem.WriteFile(p, data, filesystem.DefaultUnixFileMode)
		if inside && len(segs) > 0 && !noFileOnWay(ref, segs) {
			refuse = true
		}
		inside = inside && len(segs) > 0 && noFileOnWay(ref, segs)
		if inside {
			if t := ref.Find(segs); t != nil && t.Dir {
				inside, refuse = false, true
			}
		}
		if inside {
			nd.Assert(ref.WriteFile(segs, data), "C02/ref")
		}
	case oMkdirAll:
		dErr, mErr = disk.MkdirAll(p, filesystem.DefaultUnixDirMode), mem.MkdirAll(p, filesystem.DefaultUnixDirMode)
		if inside && len(segs) > 0 && !noFileOnWay(ref, segs) {
			refuse = true
		}
		inside = inside && (len(segs) == 0 || noFileOnWay(ref, segs))
		if inside && len(segs) > 0 {
			if t := ref.Find(segs); t != nil && !t.Dir {
				inside, refuse = false, true
			}
		}
		if inside {
			ref.MkdirAll(segs)
		}
	case oRemove:
		dErr, mErr = disk.Remove(p), mem.Remove(p)
		refuse = inside && len(segs) > 0 && ref.Find(segs) == nil
		inside = inside && len(segs) > 0 && ref.Find(segs) != nil
		if inside {
			t := ref.Find(segs)
			if t.Dir && len(t.Kids) > 0 {
				// both must refuse
				nd.Assert(dErr != nil && mErr != nil, "C02/remove-nonempty-refused")
				nd.Assert(reftree.Same(disk, ref, nil), "C02/remove-nonempty-unchanged")
				return true
			}
			ref.Remove(segs)
		}
	case oRemoveAll:
		dErr, mErr = disk.RemoveAll(p), mem.RemoveAll(p)
		inside = inside && len(segs) > 0 && ref.Find(segs) != nil
		if inside {
			ref.RemoveAll(segs)
		}
	case oReadFile:
		d1, e1 := disk.ReadFile(p)
		d2, e2 := mem.ReadFile(p)
		dErr, mErr = e1, e2
		t := ref.Find(segs)
		refuse = inside && (t == nil || t.Dir)
		inside = inside && t != nil && !t.Dir
		if inside && e1 == nil && e2 == nil {
			nd.Assert(bytes.Equal(d1, d2) && bytes.Equal(d1, t.Data), "C02/readfile-bytes")
		}
	case oReadDir:
		l1, e1 := disk.ReadDir(p)
		l2, e2 := mem.ReadDir(p)
		dErr, mErr = e1, e2
		t := ref.Find(segs)
		refuse = inside && (t == nil || !t.Dir)
		inside = inside && t != nil && t.Dir
		if inside && e1 == nil && e2 == nil {
			nd.Assert(len(l1) == len(l2) && len(l1) == len(t.Kids), "C02/readdir-set")
		}
	case oQuery:
		if inside {
			t := ref.Find(segs)
			nd.Assert(disk.IsExist(p) == (t != nil) && mem.IsExist(p) == (t != nil), "C02/isexist")
			nd.Assert(disk.IsFile(p) == (t != nil && !t.Dir), "C02/isfile")
			nd.Assert(disk.IsDir(p) == (t != nil && t.Dir), "C02/isdir")
		} else {
			disk.IsExist(p)
			disk.IsFile(p)
			disk.IsDir(p)
		}
	case oLstat:
		i1, e1 := disk.Lstat(p)
		_, e2 := mem.Lstat(p)
		dErr, mErr = e1, e2
		t := ref.Find(segs)
		refuse = inside && t == nil
		inside = inside && t != nil && len(segs) > 0
		if inside && e1 == nil {
			nd.Assert(i1.Name() == segs[len(segs)-1] && i1.IsDir() == t.Dir, "C02/lstat-info")
			if !t.Dir {
				nd.Assert(i1.Size() == int64(len(t.Data)), "C02/lstat-size")
			}
		}
	case oWriter:
		c1, c2 := nd.BytesUpTo("chunk1", 1), nd.BytesUpTo("chunk2", 1)
		all := append(append([]byte{}, c1...), c2...)
		for _, fs := range []filesystem.Filespace{disk, mem} {
			w, err := fs.Writer(p)
			if err == nil {
				w.Write(c1)
				w.Write(c2)
				err = w.Close()
			}
			if fs == disk {
				dErr = err
			} else {
				mErr = err
			}
		}
		inside = inside && len(segs) > 0 && ref.ParentExists(segs)
		if inside {
			if t := ref.Find(segs); t != nil && t.Dir {
				inside, refuse = false, true
			}
		}
		if inside {
			ref.WriteFile(segs, all)
		}
	case oReader:
		t := ref.Find(segs)
		refuse = inside && t == nil
		inside = inside && t != nil && !t.Dir
		r1, e1 := disk.Reader(p)
		r2, e2 := mem.Reader(p)
		dErr, mErr = e1, e2
		if e2 == nil {
			r2.Close()
		}
		if e1 == nil {
			got, eof := zzReadAll(r1, 1+nd.Choose("buf", 2))
			r1.Close()
			if inside {
				nd.Assert(eof && bytes.Equal(got, t.Data), "C02/reader-bytes")
			}
		}
	case oCopyFile, oCopyDir, oCopy:
		var q string
		if zzTemplates {
			q = zzTemplatePath("dest")
		} else {
			q = nd.StringUpTo("q", L)
		}
		for i := 0; i < len(q); i++ {
			nd.Assume(q[i] != 0)
		}
		dsegs, dclimbs := reftree.Norm(q)
		// a destination inside the source meets the preconditions like any
		// other (the copy is a snapshot of the source as it was); the disk
		// walk used to chase its own output there (§11, repaired)
		switch op {
		case oCopyFile:
			dErr, mErr = disk.CopyFile(p, q), mem.CopyFile(p, q)
		case oCopyDir:
			dErr, mErr = disk.CopyDirectory(p, q), mem.CopyDirectory(p, q)
		default:
			dErr, mErr = disk.Copy(p, q), mem.Copy(p, q)
		}
		s := ref.Find(segs)
		refuse = inside && !dclimbs && s == nil
		// (the filespace root is a directory source like any other)
		inside = inside && !dclimbs && len(dsegs) > 0 && s != nil &&
			(op == oCopy || (op == oCopyFile) == !s.Dir) &&
			ref.Find(dsegs) == nil && ref.ParentExists(dsegs)
		if inside {
			nd.Assert(ref.CopyTo(s, dsegs), "C02/ref")
		}
	}
	if refuse {
		nd.Assert(dErr != nil && mErr != nil, "C02/"+name+"/wrong-kind-or-missing-refused-by-both")
		nd.Assert(reftree.Same(disk, ref, nil), "C02/"+name+"/refused-disk-tree-unchanged")
		nd.Assert(reftree.Same(mem, ref, nil), "C02/"+name+"/refused-mem-tree-unchanged")
		nd.Assert(h.outsideIntact(), "C02/"+name+"/host-outside-root")
		return true
	}
	if !inside {
		nd.Assert(h.outsideIntact(), "C02/"+name+"/outside-preconditions-changed-host")
		return false
	}
	nd.Assert((dErr == nil) == (mErr == nil), "C02/"+name+"/same-result")
	nd.Assert(dErr == nil, "C02/"+name+"/succeeds-inside-preconditions")
	nd.Assert(reftree.Same(disk, ref, nil), "C02/"+name+"/disk-tree")
	nd.Assert(reftree.Same(mem, ref, nil), "C02/"+name+"/mem-tree")
	nd.Assert(h.outsideIntact(), "C02/"+name+"/host-outside-root")
	return true
}

// zzTemplates / zzOpSet: the two-step harness draws paths from structural
// templates over the existing names and one fresh symbolic name, and its
// first operation from the mutating kinds only.
var zzTemplates bool
var zzOpSet []int

func zzTemplatePath(label string) string {
	fresh := func() string {
		if nd.Param("SYMNAME", 0) == 0 {
			return "n" // a name that does not exist yet
		}
		n := nd.String("name", 1)
		nd.Assume(nd.And(nd.And(n != "/", n != "."), n[0] != 0))
		return n
	}
	switch nd.Choose(label, nd.Param("PT", 8)) {
	case 0:
		return "a/f"
	case 1:
		return fresh()
	case 2:
		return "a"
	case 3:
		return "g"
	case 4:
		return "a/" + fresh()
	case 5:
		return "a/d"
	case 6:
		return "a/d/h"
	default:
		return "a/d/" + fresh() // as a copy destination: two levels inside the source a
	}
}

// ZZVerifC02Pairs: two-operation histories on both back ends: a mutating
// operation (write, mkdir, remove, recursive remove, stream write, copies)
// followed by any operation, over the existing nodes and fresh names - so
// that the second operation meets the state the first one left on disk.
func ZZVerifC02Pairs() {
	h := zzNewHost()
	defer h.cleanup()
	disk, err := diskfs.NewFilespace(h.base + "/r")
	nd.Assume(err == nil)
	mem, _ := memfs.NewFilespace()
	ref := reftree.NewRoot()
	zzPrelude([]filesystem.Filespace{disk, mem}, ref)
	zzTemplates = true
	zzOpSet = []int{oWriteFile, oMkdirAll, oRemove, oRemoveAll, oWriter, oCopyFile, oCopyDir, oCopy}[:nd.Param("PO1", 8)]
	if zzStep(h, disk, mem, ref) {
		zzOpSet = []int{oWriteFile, oMkdirAll, oRemove, oRemoveAll, oWriter, oReadFile, oReadDir, oQuery, oLstat, oReader, oCopyFile, oCopyDir, oCopy}[:nd.Param("PO2", 13)]
		zzStep(h, disk, mem, ref)
	}
	nd.Reach("C02/pairs-end")
}

// ZZVerifC02CopyInside: one directory copy with source and destination from
// all eight templates - among them destinations one and two levels inside
// the source (Copy(a, a/n), Copy(a, a/d/n)): the copy is a snapshot of the
// source on both back ends - followed by any operation.
func ZZVerifC02CopyInside() {
	h := zzNewHost()
	defer h.cleanup()
	disk, err := diskfs.NewFilespace(h.base + "/r")
	nd.Assume(err == nil)
	mem, _ := memfs.NewFilespace()
	ref := reftree.NewRoot()
	zzPrelude([]filesystem.Filespace{disk, mem}, ref)
	// neighbours whose names have the fresh destination names as a string
	// prefix (a/nn beside the destination a/n, a/d/nx beside a/d/n)
	for _, fs := range []filesystem.Filespace{disk, mem} {
		nd.Assume(fs.WriteFile("a/nn/k", []byte("4"), filesystem.DefaultUnixFileMode) == nil)
		nd.Assume(fs.WriteFile("a/d/nx/k", []byte("5"), filesystem.DefaultUnixFileMode) == nil)
	}
	ref.WriteFile([]string{"a", "nn", "k"}, []byte("4"))
	ref.WriteFile([]string{"a", "d", "nx", "k"}, []byte("5"))
	zzTemplates = true
	zzOpSet = []int{oCopyDir, oCopy}
	if zzStep(h, disk, mem, ref) {
		zzOpSet = []int{oWriteFile, oRemoveAll, oReadDir, oQuery, oCopy}
		zzStep(h, disk, mem, ref)
	}
	nd.Reach("C02/copyinside-end")
}

// ZZVerifC02Diff: K symbolic operations applied to a disk filespace (over the
// host model) and to the memory filespace, both holding the same small tree.
func ZZVerifC02Diff() {
	h := zzNewHost()
	defer h.cleanup()
	disk, err := diskfs.NewFilespace(h.base + "/r")
	nd.Assume(err == nil)
	mem, _ := memfs.NewFilespace()
	ref := reftree.NewRoot()
	zzPrelude([]filesystem.Filespace{disk, mem}, ref)
	nd.Assert(reftree.Same(disk, ref, nil), "C02/prelude-disk-tree")
	k := nd.Param("K", 1)
	for i := 0; i < k; i++ {
		if !zzStep(h, disk, mem, ref) {
			break
		}
	}
	nd.Reach("C02/diff-end")
}

// ZZVerifC02View: the same through child views of both backends.
func ZZVerifC02View() {
	h := zzNewHost()
	defer h.cleanup()
	disk, err := diskfs.NewFilespace(h.base + "/r")
	nd.Assume(err == nil)
	mem, _ := memfs.NewFilespace()
	ref := reftree.NewRoot()
	zzPrelude([]filesystem.Filespace{disk, mem}, ref)
	// the view is rooted at a sub-directory or at the filespace root itself
	vroot := []string{"a", "."}[nd.Choose("view-root", 2)]
	dv, e1 := disk.Filespace(vroot)
	mv, e2 := mem.Filespace(vroot)
	nd.Assert(e1 == nil && e2 == nil, "C02/view-opens")
	if e1 != nil || e2 != nil {
		return
	}
	sub := ref
	if vroot == "a" {
		sub = ref.Find([]string{"a"})
	}
	if zzStep(h, dv, mv, sub) {
		nd.Assert(reftree.Same(disk, ref, nil), "C02/view-parent-disk-tree")
	}
	nd.Reach("C02/view-end")
}
