//go:build verif

package fsloop

import (
	"errors"
	"os"
	"sync"

	"github.com/goatcms/goatcore/filesystem"
	"github.com/goatcms/goatcore/filesystem/filespace/memfs"
	"github.com/goatcms/goatcore/zzverif/nd"
)

type zzVisit struct {
	mu       sync.Mutex
	seen     map[string]int
	running  int
	maxRun   int
	finished bool // set after Wait returned
	late     bool // a callback ended after Wait returned
}

func (v *zzVisit) begin(p string) {
	v.mu.Lock()
	v.seen[p]++
	v.running++
	if v.running > v.maxRun {
		v.maxRun = v.running
	}
	v.mu.Unlock()
}

func (v *zzVisit) end() {
	v.mu.Lock()
	v.running--
	if v.finished {
		v.late = true
	}
	v.mu.Unlock()
}

var zzListErr = errors.New("listing failed")

// zzFailList wraps a filespace; listing the directory bad fails.
type zzInner = filesystem.Filespace

type zzFailList struct {
	zzInner
	bad string
}

func (f zzFailList) ReadDir(p string) ([]os.FileInfo, error) {
	if p == f.bad || p == f.bad+"/" {
		return nil, zzListErr
	}
	return f.zzInner.ReadDir(p)
}

// ZZVerifC08Loop: the loop calls the file callback once per accepted file
// and the directory callback once per accepted directory (descending only
// into accepted directories), never runs more callbacks at once than there
// are consumers, Wait returns after the last callback, callback errors are
// reported; under every schedule with at most P preemptions.
func ZZVerifC08Loop() { zzLoop(nd.Param("P", 1), nd.Param("SHAPES", 3), nd.Param("C", 1), nd.Param("PR", 1)) }

// ZZVerifC08Bound: the consumer bound. Callbacks are long-running (any other
// goroutine may run while one is inside, without spending a preemption), the
// tree has at least two entries, nothing fails and nothing is filtered: with
// every combination of 1..BC consumers and 1..BPR producers the number of
// callbacks running at once never exceeds the configured consumer count (and
// every entry is still visited exactly once, Wait returns last).
func ZZVerifC08Bound() {
	zzPlain = true
	zzLoop(nd.Param("BP", 0), 3, nd.Param("BC", 2), nd.Param("BPR", 2))
}

// zzPlain: long-running callbacks, no failures, no filters, shapes 1-2 only.
var zzPlain bool

// ZZVerifC08LoopWide: the same with more producers/consumers and all tree
// shapes under a smaller preemption bound.
func ZZVerifC08LoopWide() {
	zzLoop(nd.Param("WP", 1), nd.Param("WSHAPES", 5), nd.Param("WC", 2), nd.Param("WPR", 2))
}

func zzLoop(pBound, nShapes, maxC, maxPR int) {
	nd.Schedule(pBound)
	nd.Races()
	fs, _ := memfs.NewFilespace()
	// tree shape: 0: f        1: f, d/g      2: d/g, d/h      3: empty     4: d/ (empty dir), f
	shape := nd.Choose("shape", nShapes)
	if zzPlain {
		nd.Assume(shape == 1 || shape == 2)
	}
	var files, dirs []string
	w := func(p string) {
		nd.Assume(fs.WriteFile(p, []byte("x"), filesystem.DefaultUnixFileMode) == nil)
		files = append(files, "./"+p)
	}
	switch shape {
	case 0:
		w("f")
	case 1:
		w("f")
		w("d/g")
		dirs = append(dirs, "./d")
	case 2:
		w("d/g")
		w("d/h")
		dirs = append(dirs, "./d")
	case 3:
	case 4:
		nd.Assume(fs.MkdirAll("d", filesystem.DefaultUnixDirMode) == nil)
		dirs = append(dirs, "./d")
		w("f")
	}
	consumers := 1 + nd.Choose("consumers", maxC)
	producers := 1 + nd.Choose("producers", maxPR)
	rejectDir := !zzPlain && nd.Choose("reject-dir", 2) == 1 && len(dirs) > 0
	failFile := !zzPlain && nd.Bool("fail-file")
	// a files-only walk: no directory callback at all (filters still apply)
	filesOnly := !zzPlain && maxC == 1 && len(dirs) > 0 && nd.Bool("files-only")
	failDir := !zzPlain && len(dirs) > 0 && !rejectDir && !filesOnly && nd.Bool("fail-dir")
	cbFailed := false // some callback returned an error
	// a listing error in the sub-directory (if there is one and it is entered)
	failList := !zzPlain && len(dirs) > 0 && !rejectDir && nd.Bool("fail-listing")
	var walked filesystem.Filespace = fs
	if failList {
		walked = zzFailList{zzInner: fs, bad: "./d"}
	}
	v := &zzVisit{seen: map[string]int{}}
	injected := errors.New("callback failed")
	data := &LoopData{
		Filespace: walked,
		OnFile: func(_ filesystem.Filespace, p string) error {
			v.begin(p)
			if zzPlain {
				nd.Pause() // a callback takes time: others may run meanwhile
			} else {
				nd.Yield()
			}
			v.end()
			if failFile {
				v.mu.Lock()
				cbFailed = true
				v.mu.Unlock()
				return injected
			}
			return nil
		},
		OnDir: func(_ filesystem.Filespace, p string) error {
			v.begin(p)
			if zzPlain {
				nd.Pause() // a callback takes time: others may run meanwhile
			} else {
				nd.Yield()
			}
			v.end()
			if failDir {
				v.mu.Lock()
				cbFailed = true
				v.mu.Unlock()
				return injected
			}
			return nil
		},
		Consumers:  consumers,
		Producents: producers,
	}
	if rejectDir {
		data.DirFilter = func(_ filesystem.Filespace, p string) bool { return false }
	}
	if filesOnly {
		data.OnDir = nil
	}
	loop := NewLoop(data, nil)
	loop.Run("")
	loop.Wait()
	v.mu.Lock()
	v.finished = true
	v.mu.Unlock()
	errs := loop.Errors()
	// expected selection
	wantFiles, wantDirs := files, dirs
	if filesOnly {
		wantDirs = nil
	}
	if rejectDir {
		wantDirs = nil
		wantFiles = nil
		for _, f := range files {
			if len(f) == 3 { // "./f": top-level files only
				wantFiles = append(wantFiles, f)
			}
		}
	}
	if len(errs) == 0 {
		for _, f := range wantFiles {
			nd.Assert(v.seen[f] >= 1, "C08/file-skipped")
			nd.Assert(v.seen[f] <= 1, "C08/file-repeated")
		}
		for _, d := range wantDirs {
			nd.Assert(v.seen[d] >= 1, "C08/dir-skipped")
			nd.Assert(v.seen[d] <= 1, "C08/dir-repeated")
		}
		nd.Assert(len(v.seen) == len(wantFiles)+len(wantDirs), "C08/unselected-node-visited")
	} else {
		for p, n := range v.seen {
			_ = p
			nd.Assert(n <= 1, "C08/node-repeated-on-error")
		}
	}
	if cbFailed {
		nd.Assert(len(errs) > 0, "C08/callback-error-reported")
	}
	if failList {
		nd.Assert(len(errs) > 0, "C08/listing-error-reported")
		if !cbFailed && !failFile && !failDir {
			// nothing else stops the walk: when Wait returns the listing error
			// itself (not only the cancellation it caused) is in the list
			found := false
			for _, e := range errs {
				if e == zzListErr {
					found = true
				}
			}
			nd.Assert(found, "C08/listing-error-itself-in-the-list")
		}
	}
	if !cbFailed && !failList {
		nd.Assert(len(errs) == 0, "C08/no-spurious-error")
	}
	nd.Assert(v.maxRun <= consumers, "C08/more-callbacks-than-consumers")
	nd.Quiesce()
	nd.Assert(!v.late && v.running == 0, "C08/callback-after-wait")
	if zzPlain && consumers >= 2 && v.maxRun >= 2 {
		nd.Reach("C08/bound-two-callbacks-overlapped")
	}
	nd.Reach("C08/loop-end")
}
