//go:build verif

// Package c04: streams and cross-filespace copies.
package c04

import (
	"bytes"
	"io"
	"os"

	"github.com/goatcms/goatcore/filesystem"
	"github.com/goatcms/goatcore/filesystem/filespace/diskfs"
	"github.com/goatcms/goatcore/filesystem/filespace/encryptfs"
	"github.com/goatcms/goatcore/filesystem/filespace/encryptfs/cipherfs/extcfs"
	"github.com/goatcms/goatcore/filesystem/filespace/memfs"
	"github.com/goatcms/goatcore/filesystem/fscache"
	"github.com/goatcms/goatcore/filesystem/fshelper"
	_ "github.com/goatcms/goatcore/zzverif/hostfs"
	"github.com/goatcms/goatcore/zzverif/nd"
	"github.com/goatcms/goatcore/zzverif/reftree"
)

const (
	bMem = iota
	bEnc
	bCache
	bMemView
	bDisk
	bNBackends
)

var zzBackendName = []string{"memfs", "encrypted", "cache", "memview", "disk"}

var zzCleanup = func() {}

func zzBackend(kind int) filesystem.Filespace {
	m, _ := memfs.NewFilespace()
	switch kind {
	case bMem:
		return m
	case bEnc:
		e, err := encryptfs.NewEncryptFS(m, encryptfs.Settings{Secret: []byte("s"), Salt: []byte("t"), Cipher: extcfs.NewDefaultCipher()})
		nd.Assume(err == nil)
		return e
	case bCache:
		c, err := fscache.NewMemCache(m)
		nd.Assume(err == nil)
		return c
	case bDisk:
		// the disk filespace over the host model (natively: a scratch directory)
		base := "/r"
		if nd.Concrete() {
			d, err := os.MkdirTemp("", "zzc04")
			nd.Assume(err == nil)
			base = d
			zzCleanup = func() { os.RemoveAll(d) }
		}
		nd.Assume(os.MkdirAll(base, 0755) == nil)
		dfs, err := diskfs.NewFilespace(base)
		nd.Assume(err == nil)
		return dfs
	case bMemView:
		nd.Assume(m.MkdirAll("v", filesystem.DefaultUnixDirMode) == nil)
		v, err := m.Filespace("v")
		nd.Assume(err == nil)
		return v
	}
	return nil
}

func zzReadAll(r io.Reader, bufSize int) ([]byte, bool) {
	var out []byte
	buf := make([]byte, bufSize)
	for i := 0; i < 64; i++ {
		n, err := r.Read(buf)
		out = append(out, buf[:n]...)
		if err == io.EOF {
			return out, true
		}
		if err != nil {
			return out, false
		}
	}
	return out, false
}

// zzStream: writer over an absent / shorter / longer existing file, any
// chunking; afterwards the file holds exactly the concatenation and a reader
// returns exactly that for any buffer size.
// zzPlainReader hides every method of a reader but Read.
type zzPlainReader struct{ r io.Reader }

func (p zzPlainReader) Read(b []byte) (int, error) { return p.r.Read(b) }

func zzStream(kind int) {
	name := zzBackendName[kind]
	fs := zzBackend(kind)
	defer func() { zzCleanup() }()
	if nd.Choose("preexisting", 2) == 1 {
		old := nd.BytesUpTo("old", nd.Param("O", 3))
		nd.Assume(fs.WriteFile("f", old, filesystem.DefaultUnixFileMode) == nil)
	}
	w, err := fs.Writer("f")
	nd.Assert(err == nil, "C04/"+name+"/writer-opens")
	if err != nil {
		return
	}
	nchunks := nd.Choose("nchunks", nd.Param("C", 2)+1)
	var all []byte
	// all chunks go through ONE caller-owned buffer (as io.Copy does) that is
	// overwritten after every Write and after Close
	buf := make([]byte, 2)
	for i := 0; i < nchunks; i++ {
		c := nd.BytesUpTo("chunk", 2)
		k := copy(buf, c)
		if nd.Bool("chunk-by-io-copy") {
			// the chunk arrives by io.Copy from a plain reader (a writer that
			// brings its own ReadFrom takes that path)
			n, err := io.Copy(w, zzPlainReader{bytes.NewReader(buf[:k])})
			nd.Assert(err == nil && int(n) == len(c), "C04/"+name+"/write-ok")
		} else {
			n, err := w.Write(buf[:k])
			nd.Assert(err == nil && n == len(c), "C04/"+name+"/write-ok")
		}
		all = append(all, c...)
		buf[0], buf[1] = buf[0]^0xff, buf[1]^0xff
	}
	nd.Assert(w.Close() == nil, "C04/"+name+"/close-ok")
	buf[0], buf[1] = 0x55, 0xaa
	got, err := fs.ReadFile("f")
	nd.Assert(err == nil, "C04/"+name+"/readfile-ok")
	if err == nil {
		nd.Assert(bytes.Equal(got, all), "C04/"+name+"/content-is-concatenation")
	}
	r, err := fs.Reader("f")
	nd.Assert(err == nil, "C04/"+name+"/reader-opens")
	if err == nil {
		data, eof := zzReadAll(r, 1+nd.Choose("buf", 3))
		nd.Assert(eof, "C04/"+name+"/reader-eof")
		nd.Assert(bytes.Equal(data, all), "C04/"+name+"/reader-bytes")
		nd.Assert(r.Close() == nil, "C04/"+name+"/reader-close")
	}
	nd.Reach("C04/" + name + "/stream-end")
}

func ZZVerifC04StreamMem()     { zzStream(bMem) }
func ZZVerifC04StreamEnc()     { zzStream(bEnc) }
func ZZVerifC04StreamCache()   { zzStream(bCache) }
func ZZVerifC04StreamMemView() { zzStream(bMemView) }
func ZZVerifC04StreamDisk()    { zzStream(bDisk) }

// ZZVerifC04Copy: the stream-based copy helpers reproduce a source file or
// tree byte-for-byte in a destination that already holds other content, and
// report an error whenever - because of one injected I/O failure at any
// position - the destination is not a complete copy.
func ZZVerifC04Copy() {
	src, _ := memfs.NewFilespace()
	c1 := nd.BytesUpTo("f", 2)
	c2 := nd.BytesUpTo("g", 1)
	nd.Assume(src.WriteFile("f", c1, filesystem.DefaultUnixFileMode) == nil)
	nd.Assume(src.WriteFile("d/g", c2, filesystem.DefaultUnixFileMode) == nil)
	nd.Assume(src.MkdirAll("e", filesystem.DefaultUnixDirMode) == nil)
	want := reftree.NewRoot()
	want.WriteFile([]string{"f"}, c1)
	want.WriteFile([]string{"d", "g"}, c2)
	want.MkdirAll([]string{"e"})

	destRoot := reftree.NewRoot()
	pre := nd.Choose("dest-state", 4)
	switch pre {
	case 3: // a FILE where the source has the (empty) directory e
		destRoot.WriteFile([]string{"e"}, []byte("old"))
	case 1: // longer files already there
		destRoot.WriteFile([]string{"f"}, []byte("zzzz"))
		destRoot.WriteFile([]string{"d", "g"}, []byte("yyy"))
	case 2: // shorter / empty file there
		destRoot.WriteFile([]string{"f"}, []byte{})
		destRoot.MkdirAll([]string{"d"})
	}
	raw := reftree.NewFS(destRoot)
	// the destination makes streamed bytes durable on every Write, or only
	// when Close succeeds (a buffering back end)
	*raw.Deferred = nd.Bool("dest-commits-at-close")
	var dest filesystem.Filespace = raw
	encrypted := nd.Choose("dest-encrypted", 2) == 1
	if encrypted {
		// the encrypting writer performs the underlying write in Close
		nd.Assume(pre == 0)
		e, err := encryptfs.NewEncryptFS(raw, encryptfs.Settings{Secret: []byte("s"), Salt: []byte("t"), Cipher: extcfs.NewDefaultCipher()})
		nd.Assume(err == nil)
		dest = e
	}
	*raw.FailAt = nd.Choose("failat", nd.Param("F", 12)+1) - 1
	helper := nd.Choose("helper", 5)
	var err error
	switch helper {
	case 0:
		err = fshelper.StreamCopy(src, dest, "f")
		nd.Assume(pre != 9)
	case 1:
		err = (fshelper.Copier{SrcFS: src, SrcPath: "f", DestFS: dest, DestPath: "f"}).Do()
	case 2:
		err = (fshelper.Copier{SrcFS: src, SrcPath: "d", DestFS: dest, DestPath: "d"}).Do()
	case 3:
		err = fshelper.Copy(src, dest, nil)
	case 4: // an empty directory
		err = (fshelper.Copier{SrcFS: src, SrcPath: "e", DestFS: dest, DestPath: "e"}).Do()
	}
	injected := *raw.FailAt >= 0 && *raw.Calls > *raw.FailAt
	*raw.FailAt = -1
	// complete?
	complete := true
	check := func(segs []string, data []byte) {
		got, err := dest.ReadFile(reftree.Join(segs))
		if err != nil {
			complete = false
			return
		}
		complete = nd.And(complete, bytes.Equal(got, data))
	}
	switch helper {
	case 0, 1:
		check([]string{"f"}, c1)
	case 2:
		check([]string{"d", "g"}, c2)
	case 3:
		check([]string{"f"}, c1)
		check([]string{"d", "g"}, c2)
		if e := destRoot.Find([]string{"e"}); e == nil || !e.Dir {
			complete = false
		}
	case 4:
		if e := destRoot.Find([]string{"e"}); e == nil || !e.Dir {
			complete = false
		}
	}
	if err == nil {
		nd.Assert(complete, "C04/copy/no-error-means-complete-copy")
	}
	if !injected && pre != 3 {
		nd.Assert(err == nil, "C04/copy/succeeds-without-fault")
	}
	nd.Assert(nd.Or(complete, err != nil), "C04/copy/incomplete-copy-reports-error")
	nd.Reach("C04/copy/end")
}

// ZZVerifC04WrongKind: the destination (a real memory filespace, directly or
// behind the cache) already holds a node of the OTHER kind where the source
// has a file, an empty directory or a non-empty directory: whichever helper
// copies it, "no error" still means that the destination is a complete copy
// (a file where the source has a file with the same bytes, a directory where
// it has a directory).
func ZZVerifC04WrongKind() {
	src, _ := memfs.NewFilespace()
	nd.Assume(src.WriteFile("f", []byte("x"), filesystem.DefaultUnixFileMode) == nil)
	nd.Assume(src.WriteFile("d/g", []byte("y"), filesystem.DefaultUnixFileMode) == nil)
	nd.Assume(src.MkdirAll("e", filesystem.DefaultUnixDirMode) == nil)
	base, _ := memfs.NewFilespace()
	var dest filesystem.Filespace = base
	if nd.Bool("dest-behind-cache") {
		c, err := fscache.NewMemCache(base)
		nd.Assume(err == nil)
		dest = c
	}
	what := nd.Choose("what", 3) // 0 file f, 1 empty directory e, 2 directory d
	path := []string{"f", "e", "d"}[what]
	// the node of the other kind that is already there
	if what == 0 {
		nd.Assume(dest.MkdirAll("f", filesystem.DefaultUnixDirMode) == nil)
	} else {
		nd.Assume(dest.WriteFile(path, []byte("old"), filesystem.DefaultUnixFileMode) == nil)
	}
	var err error
	if nd.Bool("whole-tree") {
		err = fshelper.Copy(src, dest, nil)
	} else {
		err = (fshelper.Copier{SrcFS: src, SrcPath: path, DestFS: dest, DestPath: path}).Do()
	}
	if err == nil {
		if what == 0 {
			got, rerr := dest.ReadFile("f")
			nd.Assert(rerr == nil && bytes.Equal(got, []byte("x")), "C04/wrongkind/no-error-means-complete-copy")
		} else {
			nd.Assert(dest.IsDir(path), "C04/wrongkind/no-error-means-complete-copy")
			if what == 2 {
				got, rerr := dest.ReadFile("d/g")
				nd.Assert(rerr == nil && bytes.Equal(got, []byte("y")), "C04/wrongkind/no-error-means-complete-copy")
			}
		}
	}
	// whatever the outcome, the source is untouched and free again (a stream
	// left open keeps its file locked): the caller clears the obstacle and
	// repeats the copy, which now succeeds and is complete
	if err != nil {
		nd.Assert(dest.RemoveAll(path) == nil, "C04/wrongkind/obstacle-removable")
		if nd.Bool("source-rewritten-before-retry") {
			nd.Assert(src.WriteFile("f", []byte("x"), filesystem.DefaultUnixFileMode) == nil, "C04/wrongkind/source-usable-after-refused-copy")
		}
		err = (fshelper.Copier{SrcFS: src, SrcPath: path, DestFS: dest, DestPath: path}).Do()
		nd.Assert(err == nil, "C04/wrongkind/retry-succeeds")
		if what == 0 {
			got, rerr := dest.ReadFile("f")
			nd.Assert(rerr == nil && bytes.Equal(got, []byte("x")), "C04/wrongkind/retry-complete")
		} else {
			nd.Assert(dest.IsDir(path), "C04/wrongkind/retry-complete")
		}
	}
	got, rerr := src.ReadFile("d/g")
	nd.Assert(rerr == nil && bytes.Equal(got, []byte("y")), "C04/wrongkind/source-unchanged")
	nd.Reach("C04/wrongkind/end")
}
