//go:build verif

package scope

import (
	"sync"

	"github.com/goatcms/goatcore/app"
	"github.com/goatcms/goatcore/app/scope/contextscope"
	"github.com/goatcms/goatcore/zzverif/nd"
)

// ZZVerifC12LateChild: creating and closing a child of a scope that is
// already done (or whose end races with the creation) is safe: no panic, the
// parent's task counter never goes negative, and waiting on the parent
// returns.
func ZZVerifC12LateChild() {
	nd.Schedule(nd.Param("P", 2))
	nd.Races()
	parent := New(Params{Name: "p"})
	mode := nd.Choose("mode", 4)
	isolated := nd.Choose("isolated", 2) == 1
	mk := func() app.Scope {
		cp := ChildParams{Name: "c"}
		if isolated {
			cp.ContextScope = contextscope.NewIsolated(parent.BaseContextScope())
		}
		return NewChild(parent, cp)
	}
	var wg sync.WaitGroup
	switch mode {
	case 0: // parent killed before the child is created
		parent.Kill()
		c := mk()
		c.Close()
	case 1: // parent stopped before the child is created
		parent.Stop()
		c := mk()
		c.Close()
	case 2: // the parent's end races with the creation
		wg.Add(1)
		go func() {
			defer wg.Done()
			parent.Stop()
		}()
		c := mk()
		c.Close()
		wg.Wait()
	case 3: // the parent's failure races with creation and close
		wg.Add(1)
		go func() {
			defer wg.Done()
			parent.AppendError(ErrDoned)
		}()
		c := mk()
		c.Close()
		wg.Wait()
	}
	parent.Wait()
	nd.Assert(parent.IsDone(), "C12/latechild-parent-done")
	nd.Reach("C12/latechild-end")
}
