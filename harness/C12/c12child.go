//go:build verif

package scope

import (
	"errors"
	"sync"

	"github.com/goatcms/goatcore/app"
	"github.com/goatcms/goatcore/app/scope/contextscope"
	"github.com/goatcms/goatcore/zzverif/nd"
)

// ZZVerifC12LateChild: creating and closing a child of a scope that is
// already done (or whose end races with the creation) is safe: no panic, the
// parent's task counter never goes negative, and waiting on the parent
// returns.
func ZZVerifC12LateChild() {
	nd.Schedule(nd.Param("P", 2))
	nd.Races()
	parent := New(Params{Name: "p"})
	mode := nd.Choose("mode", 5)
	isolated := nd.Choose("isolated", 2) == 1
	mk := func() app.Scope {
		cp := ChildParams{Name: "c"}
		if isolated {
			cp.ContextScope = contextscope.NewIsolated(parent.BaseContextScope())
		}
		return NewChild(parent, cp)
	}
	var wg sync.WaitGroup
	switch mode {
	case 0: // parent killed before the child is created
		parent.Kill()
		c := mk()
		c.Close()
	case 1: // parent stopped before the child is created
		parent.Stop()
		c := mk()
		c.Close()
	case 2: // the parent's end races with the creation
		wg.Add(1)
		go func() {
			defer wg.Done()
			parent.Stop()
		}()
		c := mk()
		c.Close()
		wg.Wait()
	case 3: // the parent's failure races with creation and close
		wg.Add(1)
		go func() {
			defer wg.Done()
			parent.AppendError(ErrDoned)
		}()
		c := mk()
		c.Close()
		wg.Wait()
	case 4: // the child of a done parent outlives it: the parent is closed
		// first (it does not wait for a child it never registered), then the
		// child reports a failure, is killed or stopped, and is closed
		if nd.Bool("parent-stopped-not-killed") {
			parent.Stop()
		} else {
			parent.Kill()
		}
		c := mk()
		parent.Close()
		e := errors.New("late")
		switch nd.Choose("late-signal", 3) {
		case 0:
			c.AppendError(e)
			found := false
			for _, x := range c.Errors() {
				if x == e {
					found = true
				}
			}
			nd.Assert(found, "C12/latechild-error-retained")
		case 1:
			c.Kill()
		default:
			c.Stop()
		}
		nd.Assert(c.IsDone(), "C12/latechild-child-done")
		c.Close()
		nd.Reach("C12/latechild-end")
		return
	}
	parent.Wait()
	nd.Assert(parent.IsDone(), "C12/latechild-parent-done")
	nd.Reach("C12/latechild-end")
}

// ZZVerifC12ScopeAppend: Scope.AppendError with any argument list (nil and
// non-nil entries in any positions), on a plain scope or a child, possibly
// twice: every non-nil error is retained in order and reported by Errors(),
// Err() and Wait(); the scope is done exactly if some error was appended.
func ZZVerifC12ScopeAppend() {
	var scp app.Scope = New(Params{Name: "s"})
	if nd.Bool("child") {
		scp = NewChild(scp, ChildParams{Name: "c"})
	}
	// optionally a listener of one of the close events brings one more error
	// while the scope is being closed - by returning it or by appending it
	lev := nd.Choose("listener-event", 6) // 0 none
	fired := false
	if lev > 0 {
		ev := []int{0, app.BeforeCloseEvent, app.CommitEvent, app.AfterCommitEvent, app.RollbackEvent, app.AfterCloseEvent}[lev]
		byAppend := nd.Bool("listener-appends")
		target := scp
		scp.On(ev, func(interface{}) error {
			fired = true
			if byAppend {
				target.AppendError(errors.New("l"))
				return nil
			}
			return errors.New("l")
		})
	}
	var want []error
	calls := 1 + nd.Choose("calls", 2)
	for c := 0; c < calls; c++ {
		n := nd.Choose("nargs", nd.Param("AA", 3)+1)
		args := make([]error, n)
		for i := range args {
			if nd.Bool("non-nil") {
				args[i] = errors.New("e")
				want = append(want, args[i])
			}
		}
		scp.AppendError(args...)
	}
	got := scp.Errors()
	nd.Assert(len(got) == len(want), "C12/scope-append-count")
	for i := range want {
		if i < len(got) {
			nd.Assert(got[i] == want[i], "C12/scope-append-retained-in-order")
		}
	}
	nd.Assert(scp.IsDone() == (len(want) > 0), "C12/scope-append-done-iff-error")
	nd.Assert((scp.Err() != nil) == (len(want) > 0), "C12/scope-append-err-iff-error")
	nd.Assert((scp.Wait() != nil) == (len(want) > 0), "C12/scope-append-wait-reports")
	// closing reports every error the scope retains at the end, also one that
	// arrived during the close phases
	cerr := scp.Close()
	nd.Assert((cerr != nil) == (len(want) > 0 || fired), "C12/scope-close-reports-retained-errors")
	nd.Assert(len(scp.Errors()) == len(want)+zzB2i(fired), "C12/scope-close-retains-errors")
	if lev == 1 || lev == 5 {
		nd.Assert(fired, "C12/scope-close-fires-listener")
	}
	nd.Reach("C12/scope-append-end")
}

// ZZVerifC12Independent: "any number of goroutines at once" also means that
// goroutines which do not share a scope at all do not disturb each other:
// two goroutines each create their own unnamed root scope (and a child of
// it), append an error or not, and close both - no panic, no data race on
// state shared behind the scenes (identifier generators), each scope reports
// exactly its own error.
func ZZVerifC12Independent() {
	nd.Schedule(nd.Param("IP", 1))
	nd.Races()
	var got [2]bool
	fail := [2]bool{nd.Bool("fail0"), nd.Bool("fail1")}
	var wg sync.WaitGroup
	for i := 0; i < 2; i++ {
		wg.Add(1)
		go func(i int) {
			defer wg.Done()
			s := New(Params{})
			c := NewChild(s, ChildParams{})
			if fail[i] {
				c.AppendError(errors.New("e"))
			}
			c.Close()
			got[i] = s.Close() != nil
		}(i)
	}
	wg.Wait()
	nd.Assert(got[0] == fail[0] && got[1] == fail[1], "C12/independent-each-scope-reports-its-own-error")
	nd.Reach("C12/independent-end")
}

func zzB2i(b bool) int {
	if b {
		return 1
	}
	return 0
}
