//go:build verif

package scope

import (
	"errors"
	"sync"

	"github.com/goatcms/goatcore/app"
	"github.com/goatcms/goatcore/app/scope/contextscope"
	"github.com/goatcms/goatcore/zzverif/nd"
)

// ZZVerifC12LateChild: creating and closing a child of a scope that is
// already done (or whose end races with the creation) is safe: no panic, the
// parent's task counter never goes negative, and waiting on the parent
// returns.
func ZZVerifC12LateChild() {
	nd.Schedule(nd.Param("P", 2))
	nd.Races()
	parent := New(Params{Name: "p"})
	mode := nd.Choose("mode", 4)
	isolated := nd.Choose("isolated", 2) == 1
	mk := func() app.Scope {
		cp := ChildParams{Name: "c"}
		if isolated {
			cp.ContextScope = contextscope.NewIsolated(parent.BaseContextScope())
		}
		return NewChild(parent, cp)
	}
	var wg sync.WaitGroup
	switch mode {
	case 0: // parent killed before the child is created
		parent.Kill()
		c := mk()
		c.Close()
	case 1: // parent stopped before the child is created
		parent.Stop()
		c := mk()
		c.Close()
	case 2: // the parent's end races with the creation
		wg.Add(1)
		go func() {
			defer wg.Done()
			parent.Stop()
		}()
		c := mk()
		c.Close()
		wg.Wait()
	case 3: // the parent's failure races with creation and close
		wg.Add(1)
		go func() {
			defer wg.Done()
			parent.AppendError(ErrDoned)
		}()
		c := mk()
		c.Close()
		wg.Wait()
	}
	parent.Wait()
	nd.Assert(parent.IsDone(), "C12/latechild-parent-done")
	nd.Reach("C12/latechild-end")
}

// ZZVerifC12ScopeAppend: Scope.AppendError with any argument list (nil and
// non-nil entries in any positions), on a plain scope or a child, possibly
// twice: every non-nil error is retained in order and reported by Errors(),
// Err() and Wait(); the scope is done exactly if some error was appended.
func ZZVerifC12ScopeAppend() {
	var scp app.Scope = New(Params{Name: "s"})
	if nd.Bool("child") {
		scp = NewChild(scp, ChildParams{Name: "c"})
	}
	var want []error
	calls := 1 + nd.Choose("calls", 2)
	for c := 0; c < calls; c++ {
		n := nd.Choose("nargs", nd.Param("AA", 3)+1)
		args := make([]error, n)
		for i := range args {
			if nd.Bool("non-nil") {
				args[i] = errors.New("e")
				want = append(want, args[i])
			}
		}
		scp.AppendError(args...)
	}
	got := scp.Errors()
	nd.Assert(len(got) == len(want), "C12/scope-append-count")
	for i := range want {
		if i < len(got) {
			nd.Assert(got[i] == want[i], "C12/scope-append-retained-in-order")
		}
	}
	nd.Assert(scp.IsDone() == (len(want) > 0), "C12/scope-append-done-iff-error")
	nd.Assert((scp.Err() != nil) == (len(want) > 0), "C12/scope-append-err-iff-error")
	nd.Assert((scp.Wait() != nil) == (len(want) > 0), "C12/scope-append-wait-reports")
	nd.Reach("C12/scope-append-end")
}
