//go:build verif

package contextscope

import (
	"context"
	"errors"
	"sync"

	"github.com/goatcms/goatcore/app"
	"github.com/goatcms/goatcore/zzverif/nd"
)

func zzHas(errs []error, e error) bool {
	for _, x := range errs {
		if x == e {
			return true
		}
	}
	return false
}

// ZZVerifC12Signal: G goroutines each perform one or two of AppendError /
// Kill / Stop / IsDone+Err on one scope (plain or isolated) under every
// schedule with at most P preemptions: no call panics, every appended error
// is retained, and the done signal fires.
func ZZVerifC12Signal() {
	nd.Schedule(nd.Param("P", 2))
	var s app.ContextScope
	if nd.Choose("kind", 2) == 0 {
		s = New()
	} else {
		s = NewIsolated(New())
	}
	g := nd.Param("G", 2)
	errs := make([]error, g)
	acts := make([]int, g)
	for i := 0; i < g; i++ {
		errs[i] = errors.New("e")
		acts[i] = nd.IntRange("act", 0, 3)
	}
	var wg sync.WaitGroup
	for i := 0; i < g; i++ {
		wg.Add(1)
		go func(i int) {
			defer wg.Done()
			switch acts[i] {
			case 0:
				s.AppendError(errs[i])
			case 1:
				s.Kill()
			case 2:
				s.Stop()
			case 3:
				s.IsDone()
				s.Err()
				s.AppendError(errs[i])
			}
		}(i)
	}
	wg.Wait()
	want := 0
	for i := 0; i < g; i++ {
		switch acts[i] {
		case 0, 3:
			want++
			nd.Assert(zzHas(s.Errors(), errs[i]), "C12/appended-error-retained")
		case 1:
			want++
			nd.Assert(zzHas(s.Errors(), context.Canceled), "C12/kill-recorded")
		}
	}
	nd.Assert(len(s.Errors()) == want, "C12/error-count")
	nd.Assert(s.IsDone(), "C12/done-fired")
	nd.Assert((s.Err() != nil) == (want > 0), "C12/err-iff-errors")
	select {
	case <-s.Done():
	default:
		nd.Assert(false, "C12/done-channel-closed")
	}
	nd.Reach("C12/signal-end")
}
