//go:build verif

package contextscope

import (
	"context"
	"errors"
	"sync"

	"github.com/goatcms/goatcore/app"
	"github.com/goatcms/goatcore/zzverif/nd"
)

func zzHas(errs []error, e error) bool {
	for _, x := range errs {
		if x == e {
			return true
		}
	}
	return false
}

// ZZVerifC12Signal: G goroutines each perform one or two of AppendError /
// Kill / Stop / IsDone+Err on one scope (plain or isolated) under every
// schedule with at most P preemptions: no call panics, every appended error
// is retained, and the done signal fires.
func ZZVerifC12Signal() { zzSignal(nd.Param("P", 2), nd.Param("G", 2), 0, 2) }

// ZZVerifC12DoneParent: the same for an isolated scope whose parent is
// already stopped or killed, or is stopped concurrently: the watcher
// goroutine of the isolated scope then signals it too, racing with the
// callers.
func ZZVerifC12DoneParent() { zzSignal(nd.Param("DP", 2), nd.Param("DG", 1), 2, 3) }

func zzSignal(pBound, g, firstKind, nKinds int) {
	nd.Schedule(pBound)
	nd.Races()
	var s app.ContextScope
	// 0 plain; isolated scope of a parent that is 1 live, 2 stopped before,
	// 3 killed before, 4 stopped concurrently
	kind := firstKind + nd.Choose("kind", nKinds)
	var parent app.ContextScope
	switch kind {
	case 0:
		s = New()
	default:
		parent = New()
		if kind == 2 {
			parent.Stop()
		}
		if kind == 3 {
			parent.Kill()
		}
		s = NewIsolated(parent)
	}
	errs := make([]error, g)
	acts := make([]int, g)
	for i := 0; i < g; i++ {
		errs[i] = errors.New("e")
		acts[i] = nd.IntRange("act", 0, 3)
	}
	var wg sync.WaitGroup
	if kind == 4 {
		wg.Add(1)
		go func() {
			defer wg.Done()
			parent.Stop()
		}()
	}
	for i := 0; i < g; i++ {
		wg.Add(1)
		go func(i int) {
			defer wg.Done()
			switch acts[i] {
			case 0:
				s.AppendError(errs[i])
			case 1:
				s.Kill()
			case 2:
				s.Stop()
			case 3:
				s.IsDone()
				s.Err()
				s.AppendError(errs[i])
			}
		}(i)
	}
	wg.Wait()
	// let the watcher goroutine of an isolated scope react to its parent
	nd.Quiesce()
	want := 0
	for i := 0; i < g; i++ {
		switch acts[i] {
		case 0, 3:
			want++
			nd.Assert(zzHas(s.Errors(), errs[i]), "C12/appended-error-retained")
		case 1:
			want++
			nd.Assert(zzHas(s.Errors(), context.Canceled), "C12/kill-recorded")
		}
	}
	if kind == 3 {
		// the watcher may add the parent's kill once
		nd.Assert(len(s.Errors()) == want || len(s.Errors()) == want+1, "C12/error-count")
	} else {
		nd.Assert(len(s.Errors()) == want, "C12/error-count")
	}
	nd.Assert(s.IsDone(), "C12/done-fired")
	nd.Assert((s.Err() != nil) == (len(s.Errors()) > 0), "C12/err-iff-errors")
	select {
	case <-s.Done():
	default:
		nd.Assert(false, "C12/done-channel-closed")
	}
	if firstKind == 0 {
		nd.Reach("C12/signal-end")
	} else {
		nd.Reach("C12/doneparent-end")
	}
}

// ZZVerifC12Accessors: the list handed out by Errors() is the caller's own:
// after N appended errors (N symbolic, so that every capacity situation of
// the internal slice occurs) the caller overwrites an element of the list and
// extends it, the scope gets one more error - the scope still reports exactly
// its own errors in order, and the caller's extended list is not rewritten.
func ZZVerifC12Accessors() {
	var s app.ContextScope
	if nd.Bool("isolated") {
		s = NewIsolated(New())
	} else {
		s = New()
	}
	n := 1 + nd.Choose("n", nd.Param("AN", 4))
	errs := make([]error, n+1)
	for i := range errs {
		errs[i] = errors.New("e")
	}
	if nd.Bool("first-by-kill") {
		s.Kill()
		errs[0] = context.Canceled
	} else {
		s.AppendError(errs[0])
	}
	for i := 1; i < n; i++ {
		s.AppendError(errs[i])
	}
	got := s.Errors()
	nd.Assert(len(got) == n, "C12/accessor-count")
	mine := errors.New("caller's own")
	ext := append(got, mine)
	got[0] = nil
	s.AppendError(errs[n])
	now := s.Errors()
	nd.Assert(len(now) == n+1, "C12/accessor-count-after-append")
	for i := 0; i <= n && i < len(now); i++ {
		nd.Assert(now[i] == errs[i], "C12/accessor-list-is-a-snapshot")
	}
	nd.Assert(len(ext) == n+1 && ext[n] == mine, "C12/accessor-callers-list-rewritten")
	nd.Assert(s.Err() != nil, "C12/err-iff-errors")
	nd.Reach("C12/accessors-end")
}
