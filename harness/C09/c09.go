//go:build verif

package memfs

import (
	"bytes"
	"errors"
	"sync"

	"github.com/goatcms/goatcore/filesystem"
	"github.com/goatcms/goatcore/zzverif/nd"
)

// zzIndexConsistent: every directory's ordered list and name index describe
// the same set, names are unique (in-package view of the representation).
func zzIndexConsistent(d *Dir) bool {
	if len(d.nodes) != len(d.index) {
		return false
	}
	for i, n := range d.nodes {
		if d.index[n.Name()] != n {
			return false
		}
		for j := 0; j < i; j++ {
			if d.nodes[j].Name() == n.Name() {
				return false
			}
		}
		if sub, ok := n.(*Dir); ok {
			if !zzIndexConsistent(sub) {
				return false
			}
		}
	}
	return true
}

func zzNoDup(fs filesystem.Filespace, p string) bool {
	l, err := fs.ReadDir(p)
	if err != nil {
		return false
	}
	for i := range l {
		for j := 0; j < i; j++ {
			if l[i].Name() == l[j].Name() {
				return false
			}
		}
	}
	return true
}

func zzListed(fs filesystem.Filespace, dir, name string) bool {
	l, err := fs.ReadDir(dir)
	if err != nil {
		return false
	}
	for _, inf := range l {
		if inf.Name() == name {
			return true
		}
	}
	return false
}

// zzOp performs operation kind k of goroutine g on its own path family.
func zzOp(fs filesystem.Filespace, g int, k int, val []byte) error {
	own := []string{"a", "b", "c"}[g]
	switch k {
	case 0:
		return fs.WriteFile("d/"+own, val, filesystem.DefaultUnixFileMode)
	case 1:
		return fs.MkdirAll("d/"+own+"/x", filesystem.DefaultUnixDirMode)
	case 2:
		return fs.CopyFile("seed", "d/"+own)
	case 3:
		w, err := fs.Writer("d/" + own)
		if err != nil {
			return err
		}
		w.Write(val)
		return w.Close()
	case 4:
		return fs.WriteFile(own, val, filesystem.DefaultUnixFileMode)
	case 5:
		return fs.Remove("d/r" + own) // a file that exists from the start
	case 6:
		return fs.RemoveAll("d/t" + own) // a non-empty directory that exists from the start
	case 7:
		// a stream writer on a path that is a directory is refused - and must
		// leave nothing locked behind
		if w, err := fs.Writer("d/t" + own); err == nil {
			w.Close()
			return errors.New("Writer on a directory was accepted")
		}
		return nil
	}
	return nil
}

// ZZVerifC09Distinct: goroutines operating on distinct paths of a shared
// directory: every successful operation is visible afterwards, listings have
// no duplicates, the index stays consistent, nothing panics or deadlocks.
func ZZVerifC09Distinct() {
	nd.Schedule(nd.Param("P", 2))
	nd.Races()
	fsi, _ := NewFilespace()
	fs := fsi.(*Filespace)
	nd.Assume(fs.WriteFile("seed", []byte("s"), filesystem.DefaultUnixFileMode) == nil)
	nd.Assume(fs.MkdirAll("d", filesystem.DefaultUnixDirMode) == nil)
	g := nd.Param("G", 2)
	// per goroutine a file and a non-empty directory to remove, and one
	// bystander that nobody touches (listed last)
	for i := 0; i < g; i++ {
		own := []string{"a", "b", "c"}[i]
		nd.Assume(fs.WriteFile("d/r"+own, []byte("r"), filesystem.DefaultUnixFileMode) == nil)
		nd.Assume(fs.WriteFile("d/t"+own+"/k", []byte("k"), filesystem.DefaultUnixFileMode) == nil)
	}
	nd.Assume(fs.WriteFile("d/zkeep", []byte("z"), filesystem.DefaultUnixFileMode) == nil)
	kinds := make([]int, g)
	vals := make([][]byte, g)
	errs := make([]error, g)
	for i := 0; i < g; i++ {
		kinds[i] = nd.IntRange("kind", 0, 7)
		vals[i] = nd.Bytes("val", 1)
	}
	var wg sync.WaitGroup
	for i := 0; i < g; i++ {
		wg.Add(1)
		go func(i int) {
			defer wg.Done()
			errs[i] = zzOp(fs, i, kinds[i], vals[i])
		}(i)
	}
	wg.Wait()
	for i := 0; i < g; i++ {
		own := []string{"a", "b", "c"}[i]
		nd.Assert(errs[i] == nil, "C09/distinct-op-succeeds")
		switch kinds[i] {
		case 0, 3:
			d, err := fs.ReadFile("d/" + own)
			nd.Assert(err == nil && bytes.Equal(d, vals[i]), "C09/distinct-write-visible")
		case 1:
			nd.Assert(fs.IsDir("d/"+own+"/x"), "C09/distinct-mkdir-visible")
		case 2:
			d, err := fs.ReadFile("d/" + own)
			nd.Assert(err == nil && bytes.Equal(d, []byte("s")), "C09/distinct-copy-visible")
		case 4:
			d, err := fs.ReadFile(own)
			nd.Assert(err == nil && bytes.Equal(d, vals[i]), "C09/distinct-rootwrite-visible")
		case 5:
			nd.Assert(!fs.IsExist("d/r"+own), "C09/distinct-remove-took-effect")
		case 6:
			nd.Assert(!fs.IsExist("d/t"+own) && !fs.IsExist("d/t"+own+"/k"), "C09/distinct-removeall-took-effect")
		}
		// what the goroutine did not remove is still there and listed
		if kinds[i] != 5 {
			nd.Assert(fs.IsFile("d/r"+own) && zzListed(fs, "d", "r"+own), "C09/distinct-untouched-file-survives")
		}
		if kinds[i] != 6 {
			nd.Assert(fs.IsFile("d/t"+own+"/k") && zzListed(fs, "d", "t"+own), "C09/distinct-untouched-dir-survives")
		}
	}
	nd.Assert(fs.IsFile("d/zkeep") && zzListed(fs, "d", "zkeep"), "C09/distinct-bystander-survives")
	// the shared directory is still usable (nothing stayed locked)
	nd.Assert(fs.WriteFile("d/last", []byte("l"), filesystem.DefaultUnixFileMode) == nil, "C09/distinct-directory-usable-afterwards")
	nd.Assert(zzNoDup(fs, "d") && zzNoDup(fs, "."), "C09/listing-duplicates")
	nd.Assert(zzIndexConsistent(fs.root), "C09/index-consistent")
	nd.Reach("C09/distinct-end")
}

// ZZVerifC09SameNode: two goroutines create the same new node (file by
// WriteFile/Writer, or directory by MkdirAll, or a file below a new parent)
// while a third lists the directory: one node results, the listing never
// shows a name twice, a file holds exactly one of the written values and a
// concurrent reader only ever sees a complete written value.
func ZZVerifC09SameNode() {
	nd.Schedule(nd.Param("P", 2))
	nd.Races()
	fsi, _ := NewFilespace()
	fs := fsi.(*Filespace)
	mode := nd.Choose("mode", 6)
	v1, v2 := nd.Bytes("v1", 2), nd.Bytes("v2", 2)
	nd.Assume(!bytes.Equal(v1, v2))
	var wg sync.WaitGroup
	run := func(f func()) {
		wg.Add(1)
		go func() {
			defer wg.Done()
			f()
		}()
	}
	var e1, e2 error
	var seen []byte
	var seenErr error
	var listed bool
	switch mode {
	case 0: // two WriteFile to the same new file
		run(func() { e1 = fs.WriteFile("n", v1, filesystem.DefaultUnixFileMode) })
		run(func() { e2 = fs.WriteFile("n", v2, filesystem.DefaultUnixFileMode) })
		run(func() { seen, seenErr = fs.ReadFile("n") })
	case 1: // two MkdirAll of the same new directory path
		run(func() { e1 = fs.MkdirAll("p/q", filesystem.DefaultUnixDirMode) })
		run(func() { e2 = fs.MkdirAll("p/q", filesystem.DefaultUnixDirMode) })
		run(func() { listed = zzNoDup(fs, ".") })
	case 2: // two files below the same new parent
		run(func() { e1 = fs.WriteFile("p/a", v1, filesystem.DefaultUnixFileMode) })
		run(func() { e2 = fs.WriteFile("p/b", v2, filesystem.DefaultUnixFileMode) })
		run(func() { listed = zzNoDup(fs, ".") })
	case 3: // writer stream vs whole-file write on the same file
		nd.Assume(fs.WriteFile("n", []byte("00"), filesystem.DefaultUnixFileMode) == nil)
		run(func() {
			w, err := fs.Writer("n")
			e1 = err
			if err == nil {
				w.Write(v1[:1])
				w.Write(v1[1:])
				e1 = w.Close()
			}
		})
		run(func() { e2 = fs.WriteFile("n", v2, filesystem.DefaultUnixFileMode) })
		run(func() { seen, seenErr = fs.ReadFile("n") })
	case 4: // the same new name as a file and as a directory
		nd.Assume(fs.MkdirAll("d", filesystem.DefaultUnixDirMode) == nil)
		run(func() { e1 = fs.WriteFile("d/n", v1, filesystem.DefaultUnixFileMode) })
		run(func() { e2 = fs.MkdirAll("d/n", filesystem.DefaultUnixDirMode) })
		run(func() { listed = zzNoDup(fs, "d") })
	case 5: // ... the directory being the implicit parent of another file
		nd.Assume(fs.MkdirAll("d", filesystem.DefaultUnixDirMode) == nil)
		run(func() { e1 = fs.WriteFile("d/n", v1, filesystem.DefaultUnixFileMode) })
		run(func() { e2 = fs.WriteFile("d/n/x", v2, filesystem.DefaultUnixFileMode) })
		run(func() { listed = zzNoDup(fs, "d") })
	}
	wg.Wait()
	_ = listed
	if mode >= 4 {
		// exactly one creation wins and the node is what the winner made
		nd.Assert((e1 == nil) != (e2 == nil), "C09/kind-conflict-exactly-one-creation-succeeds")
		if e1 == nil {
			d, err := fs.ReadFile("d/n")
			nd.Assert(err == nil && bytes.Equal(d, v1) && fs.IsFile("d/n"), "C09/kind-conflict-successful-write-visible")
		} else {
			nd.Assert(fs.IsDir("d/n"), "C09/kind-conflict-successful-mkdir-visible")
			if mode == 5 {
				d, err := fs.ReadFile("d/n/x")
				nd.Assert(err == nil && bytes.Equal(d, v2), "C09/kind-conflict-successful-write-visible")
			}
		}
		nd.Assert(zzNoDup(fs, "d"), "C09/listing-duplicates")
		nd.Assert(zzIndexConsistent(fs.root), "C09/index-consistent")
		nd.Reach("C09/same-end")
		return
	}
	nd.Assert(e1 == nil && e2 == nil, "C09/same-node-ops-succeed")
	switch mode {
	case 0, 3:
		d, err := fs.ReadFile("n")
		nd.Assert(err == nil && (bytes.Equal(d, v1) || bytes.Equal(d, v2)), "C09/file-holds-one-written-value")
		if seenErr == nil {
			ok := bytes.Equal(seen, v1) || bytes.Equal(seen, v2)
			if mode == 3 {
				ok = ok || bytes.Equal(seen, []byte("00"))
			}
			nd.Assert(ok, "C09/reader-sees-complete-value")
		}
	case 1:
		nd.Assert(fs.IsDir("p/q"), "C09/mkdir-visible")
	case 2:
		a, errA := fs.ReadFile("p/a")
		b, errB := fs.ReadFile("p/b")
		nd.Assert(errA == nil && errB == nil && bytes.Equal(a, v1) && bytes.Equal(b, v2), "C09/both-files-under-new-parent")
	}
	nd.Assert(zzNoDup(fs, "."), "C09/listing-duplicates")
	if fs.IsDir("p") {
		nd.Assert(zzNoDup(fs, "p"), "C09/listing-duplicates")
	}
	nd.Assert(zzIndexConsistent(fs.root), "C09/index-consistent")
	nd.Reach("C09/same-end")
}

// zzSharedOp: one operation of the mix on the SHARED file d/f, directory d and
// copy targets. complete() judges every content that a reading operation saw.
func zzSharedOp(fs filesystem.Filespace, k int, val []byte, complete func([]byte) bool) {
	switch k {
	case 0:
		fs.WriteFile("d/f", val, filesystem.DefaultUnixFileMode)
	case 1:
		if w, err := fs.Writer("d/f"); err == nil {
			w.Write(val[:1])
			w.Write(val[1:])
			w.Close()
		}
	case 2:
		if d, err := fs.ReadFile("d/f"); err == nil {
			nd.Assert(complete(d), "C09/mix-readfile-sees-complete-value")
		}
	case 3:
		if r, err := fs.Reader("d/f"); err == nil {
			buf := make([]byte, 4)
			n, _ := r.Read(buf)
			r.Close()
			nd.Assert(complete(buf[:n]), "C09/mix-reader-sees-complete-value")
		}
	case 4:
		if inf, err := fs.Lstat("d/f"); err == nil {
			sz := inf.Size()
			nd.Assert(sz == 0 || sz == 2, "C09/mix-stat-size-of-complete-value")
			inf.ModTime()
			inf.Name()
		}
	case 5:
		if l, err := fs.ReadDir("d"); err == nil {
			for i, inf := range l {
				inf.Size()
				inf.ModTime()
				inf.IsDir()
				for j := 0; j < i; j++ {
					nd.Assert(l[j].Name() != inf.Name(), "C09/listing-duplicates")
				}
			}
		}
	case 6:
		fs.Remove("d/f")
	case 7:
		fs.RemoveAll("d")
	case 8:
		fs.CopyFile("d/f", "d/g")
	case 9:
		fs.Copy("d", "e")
	case 10:
		fs.MkdirAll("d/x", filesystem.DefaultUnixDirMode)
	case 11:
		fs.IsExist("d/f")
		fs.IsFile("d/f")
		fs.IsDir("d")
	}
}

// ZZVerifC09Mix: G goroutines each apply one symbolic operation of the whole
// mix (write, stream write, read, stream read, stat, list, remove, recursive
// remove, file copy, tree copy, mkdir, queries) to the same file and
// directory: no panic, deadlock or data race; every reader sees a complete
// written value; afterwards the shared file (if it still exists) and its
// copies hold complete values, listings have no duplicates and the index is
// consistent.
func ZZVerifC09Mix() {
	nd.Schedule(nd.Param("MP", 1))
	nd.Races()
	fsi, _ := NewFilespace()
	fs := fsi.(*Filespace)
	nd.Assume(fs.WriteFile("d/f", []byte("00"), filesystem.DefaultUnixFileMode) == nil)
	// a second entry behind d/f: removing d/f then moves it inside the list
	nd.Assume(fs.WriteFile("d/k", []byte("kk"), filesystem.DefaultUnixFileMode) == nil)
	g := nd.Param("MG", 2)
	kinds := make([]int, g)
	vals := make([][]byte, g)
	for i := 0; i < g; i++ {
		kinds[i] = nd.IntRange("kind", 0, 11)
		vals[i] = nd.Bytes("val", 2)
	}
	complete := func(d []byte) bool {
		ok := nd.Or(bytes.Equal(d, []byte("00")), bytes.Equal(d, []byte("kk")))
		for i := 0; i < g; i++ {
			ok = nd.Or(ok, bytes.Equal(d, vals[i]))
		}
		return ok
	}
	var wg sync.WaitGroup
	for i := 0; i < g; i++ {
		wg.Add(1)
		go func(i int) {
			defer wg.Done()
			zzSharedOp(fs, kinds[i], vals[i], complete)
		}(i)
	}
	wg.Wait()
	for _, p := range []string{"d/f", "d/g", "d/k", "e/f", "e/g", "e/k"} {
		if d, err := fs.ReadFile(p); err == nil {
			nd.Assert(complete(d), "C09/mix-file-holds-complete-value")
		}
	}
	for _, p := range []string{".", "d", "e"} {
		if fs.IsDir(p) {
			nd.Assert(zzNoDup(fs, p), "C09/listing-duplicates")
		}
	}
	nd.Assert(zzIndexConsistent(fs.root), "C09/index-consistent")
	nd.Reach("C09/mix-end")
}
