//go:build verif

package pipc

import (
	"errors"
	"strings"
	"sync"

	"github.com/goatcms/goatcore/app"
	"github.com/goatcms/goatcore/app/dependency"
	"github.com/goatcms/goatcore/app/gio"
	"github.com/goatcms/goatcore/app/gio/bufferio"
	"github.com/goatcms/goatcore/app/modules/commonm/commservices/mutex"
	"github.com/goatcms/goatcore/app/modules/pipelinem/pipservices"
	"github.com/goatcms/goatcore/app/modules/pipelinem/pipservices/namespaces"
	"github.com/goatcms/goatcore/app/modules/pipelinem/pipservices/runner"
	"github.com/goatcms/goatcore/app/modules/pipelinem/pipservices/tasks"
	"github.com/goatcms/goatcore/app/scope"
	"github.com/goatcms/goatcore/app/scope/datascope"
	"github.com/goatcms/goatcore/filesystem/filespace/memfs"
	"github.com/goatcms/goatcore/zzverif/nd"
)

type zzApp struct {
	app.App
	dp app.DependencyProvider
}

func (a zzApp) InjectTo(obj interface{}) error { return a.dp.InjectTo(obj) }

type zzLog struct {
	mu  sync.Mutex
	evs []string
}

func (l *zzLog) add(e string) {
	l.mu.Lock()
	l.evs = append(l.evs, e)
	l.mu.Unlock()
}

func (l *zzLog) index(e string) int {
	for i, x := range l.evs {
		if x == e {
			return i
		}
	}
	return -1
}

func (l *zzLog) count(e string) int {
	n := 0
	for _, x := range l.evs {
		if x == e {
			n++
		}
	}
	return n
}

// zzSelf is the stub "self" sandbox: the script is one word that names what
// the block does: ok | fail | spawnok | spawnfail (spawn = submit a nested
// task to the same runner from inside the body, then succeed).
type zzSelf struct {
	log    *zzLog
	runner func() pipservices.Runner
}

func (s *zzSelf) Run(ctx app.IOContext) error {
	word, _ := ctx.IO().In().ReadWord()
	parts := strings.SplitN(word, ":", 2)
	who, what := parts[0], ""
	if len(parts) == 2 {
		what = parts[1]
	}
	s.log.add("begin:" + who)
	nd.Yield()
	var err error
	switch what {
	case "fail":
		err = errors.New(who + " failed")
	case "slow":
		nd.Pause() // a long-running nested task
	case "spawnok", "spawnfail", "spawn2":
		sub := "nested:ok"
		if what == "spawnfail" || what == "spawn2" {
			sub = "nested:fail"
		}
		cio := ctx.IO()
		err = s.runner().Run(pipservices.Pip{
			Context: pipservices.PipContext{In: gio.NewInput(strings.NewReader(sub)), Out: cio.Out(), Err: cio.Err(), CWD: cio.CWD(), Scope: ctx.Scope()},
			Name:    "nested", Namespaces: namespaces.NewNamespaces(pipservices.NamasepacesParams{Task: "n"}),
			Sandbox: "self",
		})
		if what == "spawn2" && err == nil {
			// a second, slow and succeeding nested task next to the failing one
			err = s.runner().Run(pipservices.Pip{
				Context: pipservices.PipContext{In: gio.NewInput(strings.NewReader("nested2:slow")), Out: cio.Out(), Err: cio.Err(), CWD: cio.CWD(), Scope: ctx.Scope()},
				Name:    "nested2", Namespaces: namespaces.NewNamespaces(pipservices.NamasepacesParams{Task: "n"}),
				Sandbox: "self",
			})
		}
	}
	s.log.add("end:" + who)
	return err
}

type zzBoxes struct{ self *zzSelf }

func (m *zzBoxes) Add(pipservices.SandboxBuilder) {}
func (m *zzBoxes) Get(name string) (pipservices.Sandbox, error) {
	if name == "self" {
		return m.self, nil
	}
	return nil, errors.New("unknown sandbox")
}

// ZZVerifC16Try: a try block with a symbolic body outcome (succeeds, fails,
// spawns a nested task that succeeds or fails), any subset of handlers, each
// handler itself succeeding or failing, under every schedule with at most P
// preemptions: success handler iff body ok, fail handler iff body failed,
// finally always, handlers start after the body and its nested task ended,
// and the surrounding scope is failed only by a failing handler.
func ZZVerifC16Try() { zzTry(nd.Param("P", 1), 0, nd.Param("B", 4), true, "C16/try-end") }

// ZZVerifC16Nested: the body spawns a nested task (succeeding or failing);
// or two nested tasks - a failing one next to a slow succeeding one;
// any subset of (non-failing) handlers: handlers start only after the body
// AND the task it spawned have finished, the matching handler runs, a failing
// nested task fails the body but not the surrounding scope.
func ZZVerifC16Nested() { zzTry(nd.Param("NP", 1), 2, 3, false, "C16/nested-end") }

func zzTry(pBound, bodyBase, bodyN int, handlersMayFail bool, endLabel string) {
	nd.Schedule(pBound)
	nd.Races()
	log := &zzLog{}
	var r pipservices.Runner
	boxes := &zzBoxes{self: &zzSelf{log: log, runner: func() pipservices.Runner { return r }}}
	nsUnit := namespaces.NewUnit()
	tUnit := tasks.NewUnit(tasks.UnitDeps{NamespacesUnit: nsUnit})
	r = runner.NewRunner(runner.Deps{SandboxesManager: boxes, TasksUnit: tUnit, SharedMutex: mutex.NewSharedMutex()})
	dp := dependency.NewProvider("dependency")
	nd.Assume(dp.Set("PipRunner", pipservices.Runner(r)) == nil)
	nd.Assume(dp.Set("PipNamespacesUnit", pipservices.NamespacesUnit(nsUnit)) == nil)
	nd.Assume(dp.Set("PipTasksUnit", pipservices.TasksUnit(tUnit)) == nil)
	a := zzApp{dp: dp}

	bodyKind := bodyBase + nd.Choose("body", bodyN) // ok, fail, spawnok, spawnfail
	body := []string{"body:ok", "body:fail", "body:spawnok", "body:spawnfail", "body:spawn2"}[bodyKind]
	args := datascope.New(map[interface{}]interface{}{})
	args.SetValue("name", "t")
	args.SetValue("body", body)
	handler := func(key string) (present, fails bool) {
		present = nd.Bool(key + "-present")
		if present {
			fails = handlersMayFail && nd.Bool(key+"-fails")
			w := key + ":ok"
			if fails {
				w = key + ":fail"
			}
			args.SetValue(key, w)
		}
		return
	}
	sPresent, sFails := handler("success")
	fPresent, fFails := handler("fail")
	yPresent, yFails := handler("finally")
	outer := scope.New(scope.Params{Name: "outer", Injector: datascope.NewInjector("command", args)})
	cwd, _ := memfs.NewFilespace()
	buf := bufferio.NewBuffer()
	ctx := gio.NewIOContext(outer, gio.NewIO(gio.IOParams{In: gio.NewInput(strings.NewReader("")), Out: bufferio.NewBufferOutput(buf), Err: bufferio.NewBufferOutput(buf), CWD: cwd}))
	err := Try(a, ctx)
	nd.Assert(err == nil, "C16/try-accepted")
	outer.Wait()
	mgr, merr := tUnit.FromScope(outer)
	if merr == nil {
		mgr.Wait()
	}
	nd.Quiesce()

	bodyFailed := bodyKind == 1 || bodyKind == 3 || bodyKind == 4
	nd.Assert(log.count("begin:body") == 1, "C16/body-runs-once")
	wantS, wantF := sPresent && !bodyFailed, fPresent && bodyFailed
	// class of the known finding C16-KF1: the finally handler is submitted
	// first; if it fails before the next handler is submitted the surrounding
	// scope is already done and the submission is refused
	cls := ""
	if yPresent && yFails {
		cls = "/after-failed-finally"
	}
	nd.Assert((log.count("begin:success") == 1) == wantS && log.count("begin:success") <= 1, "C16/success-handler-iff-body-ok"+cls)
	nd.Assert((log.count("begin:fail") == 1) == wantF && log.count("begin:fail") <= 1, "C16/fail-handler-iff-body-failed"+cls)
	nd.Assert((log.count("begin:finally") == 1) == yPresent && log.count("begin:finally") <= 1, "C16/finally-always")
	// handlers begin only after the body and its nested task ended
	lastBody := log.index("end:body")
	if n := log.index("end:nested"); n > lastBody {
		lastBody = n
	}
	if n := log.index("end:nested2"); n > lastBody {
		lastBody = n
	}
	if bodyKind == 4 {
		// the second nested task runs to its end - unless it was submitted
		// after its failing sibling had already failed the body's scope (a
		// scope that is done refuses new tasks): then it never starts
		nd.Assert(log.count("begin:nested2") <= 1 && log.count("end:nested2") == log.count("begin:nested2"), "C16/second-nested-task-runs")
	}
	if bodyKind >= 2 {
		nd.Assert(log.count("begin:nested") == 1, "C16/nested-task-runs")
	}
	for _, h := range []string{"success", "fail", "finally"} {
		if b := log.index("begin:" + h); b >= 0 {
			nd.Assert(lastBody >= 0 && b > lastBody, "C16/handler-before-body-finished")
		}
	}
	// containment: only a failing handler that ran fails the surrounding scope
	handlerFailed := (wantS && sFails) || (wantF && fFails) || (yPresent && yFails)
	nd.Assert((len(outer.Errors()) > 0) == handlerFailed, "C16/outer-scope-failed-iff-handler-failed")
	nd.Reach(endLabel)
}

// ZZVerifC16TwoTries: two try blocks (names t and u) run one after the
// other (the second when the first is finished) in the same surrounding scope, each with a symbolic body outcome and
// the same symbolic subset of (non-failing) handlers: both blocks are
// accepted, every handler runs once PER BLOCK exactly as for a single block
// (the blocks do not collide on task names), and the surrounding scope is
// not failed.
func ZZVerifC16TwoTries() {
	nd.Schedule(nd.Param("TP", 0))
	nd.Races()
	log := &zzLog{}
	var r pipservices.Runner
	boxes := &zzBoxes{self: &zzSelf{log: log, runner: func() pipservices.Runner { return r }}}
	nsUnit := namespaces.NewUnit()
	tUnit := tasks.NewUnit(tasks.UnitDeps{NamespacesUnit: nsUnit})
	r = runner.NewRunner(runner.Deps{SandboxesManager: boxes, TasksUnit: tUnit, SharedMutex: mutex.NewSharedMutex()})
	dp := dependency.NewProvider("dependency")
	nd.Assume(dp.Set("PipRunner", pipservices.Runner(r)) == nil)
	nd.Assume(dp.Set("PipNamespacesUnit", pipservices.NamespacesUnit(nsUnit)) == nil)
	nd.Assume(dp.Set("PipTasksUnit", pipservices.TasksUnit(tUnit)) == nil)
	a := zzApp{dp: dp}
	args := datascope.New(map[interface{}]interface{}{})
	sP, fP, yP := nd.Bool("success-present"), nd.Bool("fail-present"), nd.Bool("finally-present")
	if sP {
		args.SetValue("success", "success:ok")
	}
	if fP {
		args.SetValue("fail", "fail:ok")
	}
	if yP {
		args.SetValue("finally", "finally:ok")
	}
	outer := scope.New(scope.Params{Name: "outer", Injector: datascope.NewInjector("command", args)})
	cwd, _ := memfs.NewFilespace()
	buf := bufferio.NewBuffer()
	ctx := gio.NewIOContext(outer, gio.NewIO(gio.IOParams{In: gio.NewInput(strings.NewReader("")), Out: bufferio.NewBufferOutput(buf), Err: bufferio.NewBufferOutput(buf), CWD: cwd}))
	wantS, wantF, wantY := 0, 0, 0
	// the second block may (wrongly) reuse the name of the first: it is
	// refused, loudly, and leaves nothing pending in the surrounding scope
	sameName := nd.Bool("same-name")
	for n, name := range []string{"t", "u"} {
		if sameName {
			name = "t"
		}
		fails := nd.Bool("body-fails")
		args.SetValue("name", name)
		if fails {
			args.SetValue("body", "body:fail")
		} else {
			args.SetValue("body", "body:ok")
		}
		if sameName && n == 1 {
			nd.Assert(Try(a, ctx) != nil, "C16/twotries-duplicate-name-refused")
			// the wait below returns: the refused block handed its task back
			outer.Wait()
			break
		}
		nd.Assert(Try(a, ctx) == nil, "C16/twotries-accepted")
		// the second block starts when the first one is completely finished
		outer.Wait()
		if mgr, merr := tUnit.FromScope(outer); merr == nil {
			mgr.Wait()
		}
		if sP && !fails {
			wantS++
		}
		if fP && fails {
			wantF++
		}
		if yP {
			wantY++
		}
	}
	outer.Wait()
	if mgr, merr := tUnit.FromScope(outer); merr == nil {
		mgr.Wait()
	}
	nd.Quiesce()
	if sameName {
		nd.Assert(log.count("begin:body") == 1, "C16/twotries-refused-block-runs-nothing")
		nd.Reach("C16/twotries-end")
		return
	}
	nd.Assert(log.count("begin:body") == 2, "C16/twotries-both-bodies-run")
	nd.Assert(log.count("begin:success") == wantS, "C16/twotries-success-handlers")
	nd.Assert(log.count("begin:fail") == wantF, "C16/twotries-fail-handlers")
	nd.Assert(log.count("begin:finally") == wantY, "C16/twotries-finally-handlers")
	nd.Assert(len(outer.Errors()) == 0, "C16/twotries-outer-scope-not-failed")
	nd.Reach("C16/twotries-end")
}

// ZZVerifC16Parallel: two try blocks run AT THE SAME TIME in two surrounding
// scopes of one application (as two pipeline tasks that each contain a try
// block do): both are accepted, each runs its body and its finally handler
// once, neither surrounding scope is failed, and the two blocks share no
// unsynchronised state (data races are reported).
func ZZVerifC16Parallel() {
	nd.Schedule(nd.Param("PP", 0))
	nd.Races()
	log := &zzLog{}
	var r pipservices.Runner
	boxes := &zzBoxes{self: &zzSelf{log: log, runner: func() pipservices.Runner { return r }}}
	nsUnit := namespaces.NewUnit()
	tUnit := tasks.NewUnit(tasks.UnitDeps{NamespacesUnit: nsUnit})
	r = runner.NewRunner(runner.Deps{SandboxesManager: boxes, TasksUnit: tUnit, SharedMutex: mutex.NewSharedMutex()})
	dp := dependency.NewProvider("dependency")
	nd.Assume(dp.Set("PipRunner", pipservices.Runner(r)) == nil)
	nd.Assume(dp.Set("PipNamespacesUnit", pipservices.NamespacesUnit(nsUnit)) == nil)
	nd.Assume(dp.Set("PipTasksUnit", pipservices.TasksUnit(tUnit)) == nil)
	a := zzApp{dp: dp}
	// the application resolved its dependencies during start-up, long before
	// two commands run side by side (the provider itself promises nothing
	// about a concurrent FIRST resolution, C10)
	_, gerr := dp.Get("PipRunner")
	nd.Assume(gerr == nil)
	var outers [2]app.Scope
	var accepted [2]bool
	var wg sync.WaitGroup
	for i, name := range []string{"t", "u"} {
		args := datascope.New(map[interface{}]interface{}{})
		args.SetValue("name", name)
		args.SetValue("body", "body:ok")
		args.SetValue("finally", "finally:ok")
		outer := scope.New(scope.Params{Name: "outer" + name, Injector: datascope.NewInjector("command", args)})
		outers[i] = outer
		cwd, _ := memfs.NewFilespace()
		buf := bufferio.NewBuffer()
		ctx := gio.NewIOContext(outer, gio.NewIO(gio.IOParams{In: gio.NewInput(strings.NewReader("")), Out: bufferio.NewBufferOutput(buf), Err: bufferio.NewBufferOutput(buf), CWD: cwd}))
		wg.Add(1)
		go func(i int) {
			defer wg.Done()
			accepted[i] = Try(a, ctx) == nil
			outers[i].Wait()
		}(i)
	}
	wg.Wait()
	for i := range outers {
		if mgr, merr := tUnit.FromScope(outers[i]); merr == nil {
			mgr.Wait()
		}
	}
	nd.Quiesce()
	nd.Assert(accepted[0] && accepted[1], "C16/parallel-accepted")
	nd.Assert(log.count("begin:body") == 2, "C16/parallel-both-bodies-run")
	nd.Assert(log.count("begin:finally") == 2, "C16/parallel-finally-handlers")
	nd.Assert(len(outers[0].Errors()) == 0 && len(outers[1].Errors()) == 0, "C16/parallel-outer-scopes-not-failed")
	nd.Reach("C16/parallel-end")
}
