//go:build verif

// Package shmodel is the oracle of C18: what value does a POSIX shell assign
// when it executes the start-up script? Under the symbolic engine a lexing
// model of the heredoc rules decides; compiled natively (replay) the real
// /bin/sh executes the script, so the model can never cause a false alarm.
package shmodel

import (
	"io"
	"os"
	"os/exec"
	"path/filepath"

	"github.com/goatcms/goatcore/zzverif/nd"
)

func ReadAll(r io.Reader) []byte {
	var out []byte
	buf := make([]byte, 64)
	for i := 0; i < 1000; i++ {
		n, err := r.Read(buf)
		out = append(out, buf[:n]...)
		if err != nil {
			break
		}
	}
	return out
}

func hasPrefixAt(s []byte, i int, p string) bool {
	if i+len(p) > len(s) {
		return false
	}
	ok := true
	for j := 0; j < len(p); j++ {
		ok = nd.And(ok, s[i+j] == p[j])
	}
	return ok
}

// TrimNL removes trailing newlines (command substitution strips them).
func TrimNL(b []byte) []byte {
	n := len(b)
	for n > 0 && b[n-1] == '\n' {
		n--
	}
	return b[:n]
}

func isNameChar(c byte) bool {
	return nd.Or(nd.Or(nd.And(c >= 'a', c <= 'z'), nd.And(c >= 'A', c <= 'Z')), nd.Or(nd.And(c >= '0', c <= '9'), c == '_'))
}

// expansionActive: does an unquoted here-document body contain a sequence
// the shell interprets ($name, ${, $(, `…, or a backslash escape)?
func expansionActive(body []byte) bool {
	act := false
	for i := 0; i < len(body); i++ {
		c := body[i]
		act = nd.Or(act, c == '`')
		if i+1 < len(body) {
			n := body[i+1]
			special := nd.Or(nd.Or(isNameChar(n), nd.Or(n == '{', n == '(')), nd.Or(nd.Or(n == '@', n == '*'), nd.Or(nd.Or(n == '#', n == '?'), nd.Or(nd.Or(n == '$', n == '!'), n == '-'))))
			act = nd.Or(act, nd.And(c == '$', special))
			esc := nd.Or(nd.Or(n == '$', n == '`'), nd.Or(n == '\\', n == '\n'))
			act = nd.Or(act, nd.And(c == '\\', esc))
		}
	}
	return act
}

// Assigned returns what the shell assigns to variable name when executing
// script, or ok=false when the script does not assign the variable verbatim
// (model) / at all.
//
// Model (engine): locate  name=$(cat <<[']TAG[']\n BODY \nTAG\n)  ; with a
// quoted tag BODY is literal; with an unquoted tag BODY is literal only if it
// contains no expansion-active sequence. BODY ends at the first line equal
// to TAG.
func Assigned(script []byte, name string, tag string) (val []byte, ok bool) {
	if nd.Concrete() {
		return RealShell(script, name)
	}
	return AssignedModel(script, name, tag)
}

// AssignedModel is the lexing model used under the engine (exported so that
// modelcheck/ can compare it natively with the real shell).
func AssignedModel(script []byte, name string, tag string) (val []byte, ok bool) {
	head := name + "=$(cat <<"
	for i := 0; i+len(head) <= len(script); i++ {
		// assignments start at the beginning of a line
		if i > 0 && script[i-1] != '\n' {
			continue
		}
		if !hasPrefixAt(script, i, head) {
			continue
		}
		j := i + len(head)
		quoted := false
		if j < len(script) && script[j] == '\'' {
			quoted = true
			j++
		}
		if !hasPrefixAt(script, j, tag) {
			return nil, false
		}
		j += len(tag)
		if quoted {
			if j >= len(script) || script[j] != '\'' {
				return nil, false
			}
			j++
		}
		if j >= len(script) || script[j] != '\n' {
			return nil, false
		}
		j++
		// body: up to the first line that equals tag
		start := j
		for k := j; k <= len(script); k++ {
			atLineStart := k == start || script[k-1] == '\n'
			if atLineStart && hasPrefixAt(script, k, tag) && k+len(tag) < len(script) && script[k+len(tag)] == '\n' {
				end := k
				if end > start {
					end-- // the newline before the tag line
				}
				body := script[start:end]
				if !quoted && expansionActive(body) {
					return nil, false
				}
				// a trailing backslash joins the terminator line to the body
				if !quoted && len(body) > 0 && body[len(body)-1] == '\\' {
					return nil, false
				}
				// the command substitution must be closed right after the
				// terminator line; anything else is shell code of its own
				// (e.g. the rest of a body that contains a terminator line)
				after := k + len(tag) + 1
				if !hasPrefixAt(script, after, ")\n") {
					return nil, false
				}
				return TrimNL(body), true
			}
		}
		return nil, false
	}
	return nil, false
}

// RealShell runs script with /bin/sh and reports the value of variable name.
func RealShell(script []byte, name string) ([]byte, bool) {
	dir, err := os.MkdirTemp("", "zzsh")
	if err != nil {
		return nil, false
	}
	defer os.RemoveAll(dir)
	full := append([]byte{}, script...)
	full = append(full, []byte("\nprintf '%s' \"$"+name+"\" > "+filepath.Join(dir, "out")+"\n")...)
	cmd := exec.Command("/bin/sh")
	cmd.Dir = dir
	cmd.Env = []string{"HOME=" + dir, "PATH=/usr/bin:/bin"}
	in, _ := cmd.StdinPipe()
	go func() { in.Write(full); in.Close() }()
	cmd.Run()
	out, err := os.ReadFile(filepath.Join(dir, "out"))
	if err != nil {
		return nil, false
	}
	return out, true
}
