//go:build verif

// Package hostfs is the host file-system model behind the disk filespace:
// the engine redirects os.*, io/ioutil.* and path/filepath.{Abs,Walk} to the
// functions below (POSIX-lite: ENOENT/ENOTDIR/EISDIR/ENOTEMPTY/EEXIST, open
// flags, offsets, no symlinks, no permissions). Every path handed to the
// "kernel" is logged for the confinement monitor.
package hostfs

import (
	"errors"
	"io"
	"io/fs"
	"os"
	"time"
)

type node struct {
	name string
	dir  bool
	data []byte
	kids []*node
}

var (
	root    = &node{dir: true}
	handles = map[*os.File]*handle{}
	// Log holds every absolute path passed to the model.
	Log []string

	ErrNotExist = errors.New("no such file or directory")
	// ErrNameTooLong: a path of PathMax bytes or more is refused by every call
	// (ENAMETOOLONG; MkdirAll creates nothing in that case, the OS would still
	// create the prefix that fits - only reachable by runaway recursion).
	ErrNameTooLong = errors.New("file name too long")
	ErrNotDir   = errors.New("not a directory")
	ErrIsDir    = errors.New("is a directory")
	ErrNotEmpty = errors.New("directory not empty")
	ErrExist    = errors.New("file exists")
	ErrClosed   = errors.New("file already closed")
	ErrInvalid  = errors.New("invalid argument")
)

type handle struct {
	n        *node
	pos      int
	rd, wr   bool
	appendTo bool
	closed   bool
}

// Reset empties the host tree (the engine starts every path with package
// state re-initialised; this is for native use).
func Reset() {
	root = &node{dir: true}
	handles = map[*os.File]*handle{}
	Log = nil
}

// PathMax stands in for PATH_MAX (4096 on Linux): every call refuses a path
// of that many bytes or more. The model uses a smaller limit so that code
// which chases its own output (a directory copied into itself) ends with the
// same verdict as on the host - an error and a tree that is too deep - within
// the engine's budgets; the harness trees (depth <= 4, names <= 3 bytes under
// a 30 byte base) cannot produce such a path in any other way, and every
// counterexample is replayed natively, where the real limit applies.
const PathMax = 256

func tooLong(p string) bool { return len(p) >= PathMax }

// split resolves a path lexically into segments ("/a/./b/../c" -> a, c).
func split(p string) []string {
	if len(p) == 0 || p[0] != '/' {
		// the kernel takes a relative path relative to the working directory
		// /cwd (as Abs does); the directory comes into being with its first use
		if root.child("cwd") == nil {
			root.kids = append(root.kids, &node{name: "cwd", dir: true})
		}
		return splitLex("/cwd/" + p)
	}
	return splitLex(p)
}

// splitLex is the purely lexical resolution (no working directory).
func splitLex(p string) []string {
	var segs []string
	start := 0
	for i := 0; i <= len(p); i++ {
		if i < len(p) && p[i] != '/' {
			continue
		}
		s := p[start:i]
		start = i + 1
		if s == "" {
			continue
		}
		if s == "." {
			continue
		}
		if s == ".." {
			if len(segs) > 0 {
				segs = segs[:len(segs)-1]
			}
			continue
		}
		segs = append(segs, s)
	}
	return segs
}

// needDir: the spelling demands a directory (trailing "/" or "/.").
func needDir(p string) bool {
	n := len(p)
	if n == 0 {
		return false
	}
	if p[n-1] == '/' {
		return true
	}
	return p[n-1] == '.' && (n == 1 || p[n-2] == '/')
}

func (n *node) child(name string) *node {
	for _, k := range n.kids {
		if k.name == name {
			return k
		}
	}
	return nil
}

// walkTo returns the node at segs, or an error (ENOENT / ENOTDIR).
func walkTo(segs []string) (*node, error) {
	cur := root
	for _, s := range segs {
		if !cur.dir {
			return nil, ErrNotDir
		}
		k := cur.child(s)
		if k == nil {
			return nil, ErrNotExist
		}
		cur = k
	}
	return cur, nil
}

func logPath(p string) { Log = append(Log, p) }

type info struct {
	name string
	dir  bool
	size int64
}

func (i info) Name() string { return i.name }
func (i info) Size() int64  { return i.size }
func (i info) Mode() os.FileMode {
	if i.dir {
		return os.ModeDir | 0755
	}
	return 0644
}
func (i info) ModTime() time.Time { return time.Time{} }
func (i info) IsDir() bool        { return i.dir }
func (i info) Sys() interface{}   { return nil }

func infoOf(n *node, name string) os.FileInfo { return info{name, n.dir, int64(len(n.data))} }

func Stat(p string) (os.FileInfo, error) {
	logPath(p)
	if tooLong(p) {
		return nil, ErrNameTooLong
	}
	segs := split(p)
	n, err := walkTo(segs)
	if err != nil {
		return nil, err
	}
	if needDir(p) && !n.dir {
		return nil, ErrNotDir
	}
	return infoOf(n, rawBase(p)), nil
}

// rawBase mirrors os.Stat's name: the last element of the path as spelled
// (trailing slashes removed, "." and ".." kept).
func rawBase(p string) string {
	end := len(p)
	for end > 1 && p[end-1] == '/' {
		end--
	}
	start := end
	for start > 0 && p[start-1] != '/' {
		start--
	}
	if start == end {
		return "/"
	}
	return p[start:end]
}

func MkdirAll(p string, perm os.FileMode) error {
	logPath(p)
	if tooLong(p) {
		return ErrNameTooLong
	}
	cur := root
	for _, s := range split(p) {
		if !cur.dir {
			return ErrNotDir
		}
		k := cur.child(s)
		if k == nil {
			k = &node{name: s, dir: true}
			cur.kids = append(cur.kids, k)
		}
		cur = k
	}
	if !cur.dir {
		return ErrNotDir
	}
	return nil
}

func removeKid(parent *node, name string) {
	for i, k := range parent.kids {
		if k.name == name {
			parent.kids = append(append([]*node{}, parent.kids[:i]...), parent.kids[i+1:]...)
			return
		}
	}
}

func Remove(p string) error {
	logPath(p)
	if tooLong(p) {
		return ErrNameTooLong
	}
	segs := split(p)
	if len(segs) == 0 {
		return ErrInvalid
	}
	parent, err := walkTo(segs[:len(segs)-1])
	if err != nil {
		return err
	}
	if !parent.dir {
		return ErrNotDir
	}
	n := parent.child(segs[len(segs)-1])
	if n == nil {
		return ErrNotExist
	}
	if needDir(p) && !n.dir {
		return ErrNotDir
	}
	if p[len(p)-1] == '.' {
		return ErrInvalid // rmdir("d/.")
	}
	if n.dir && len(n.kids) > 0 {
		return ErrNotEmpty
	}
	removeKid(parent, n.name)
	return nil
}

func RemoveAll(p string) error {
	logPath(p)
	if tooLong(p) {
		return ErrNameTooLong
	}
	if n := len(p); n > 0 && p[n-1] == '.' && (n == 1 || p[n-2] == '/') {
		return ErrInvalid // os.RemoveAll refuses paths ending in "."
	}
	segs := split(p)
	if len(segs) == 0 {
		root.kids = nil
		return nil
	}
	parent, err := walkTo(segs[:len(segs)-1])
	if err != nil {
		if err == ErrNotExist {
			return nil
		}
		return err
	}
	if !parent.dir {
		return ErrNotDir
	}
	removeKid(parent, segs[len(segs)-1])
	return nil
}

const (
	oWRONLY = 0x1
	oRDWR   = 0x2
	oAPPEND = 0x400
	oCREATE = 0x40
	oEXCL   = 0x80
	oTRUNC  = 0x200
)

func OpenFile(p string, flag int, perm os.FileMode) (*os.File, error) {
	logPath(p)
	if tooLong(p) {
		return nil, ErrNameTooLong
	}
	segs := split(p)
	wr := flag&(oWRONLY|oRDWR) != 0
	rd := flag&oWRONLY == 0
	var n *node
	if len(segs) == 0 {
		n = root
	} else {
		parent, err := walkTo(segs[:len(segs)-1])
		if err != nil {
			return nil, err
		}
		if !parent.dir {
			return nil, ErrNotDir
		}
		n = parent.child(segs[len(segs)-1])
		if n == nil {
			if flag&oCREATE == 0 {
				return nil, ErrNotExist
			}
			if needDir(p) {
				return nil, ErrIsDir
			}
			n = &node{name: segs[len(segs)-1]}
			parent.kids = append(parent.kids, n)
		} else if flag&oCREATE != 0 && flag&oEXCL != 0 {
			return nil, ErrExist
		}
	}
	if needDir(p) && !n.dir {
		return nil, ErrNotDir
	}
	if n.dir && wr {
		return nil, ErrIsDir
	}
	if flag&oTRUNC != 0 && wr && !n.dir {
		n.data = nil
	}
	f := new(os.File)
	handles[f] = &handle{n: n, rd: rd, wr: wr, appendTo: flag&oAPPEND != 0}
	return f, nil
}

func Open(p string) (*os.File, error) { return OpenFile(p, 0, 0) }
func Create(p string) (*os.File, error) {
	return OpenFile(p, oRDWR|oCREATE|oTRUNC, 0666)
}

func FileRead(f *os.File, b []byte) (int, error) {
	h := handles[f]
	if h == nil || h.closed {
		return 0, ErrClosed
	}
	if h.n.dir {
		return 0, ErrIsDir
	}
	if !h.rd {
		return 0, ErrInvalid
	}
	if len(b) == 0 {
		return 0, nil
	}
	if h.pos >= len(h.n.data) {
		return 0, io.EOF
	}
	n := copy(b, h.n.data[h.pos:])
	h.pos += n
	return n, nil
}

func FileWrite(f *os.File, b []byte) (int, error) {
	h := handles[f]
	if h == nil || h.closed {
		return 0, ErrClosed
	}
	if !h.wr {
		return 0, ErrInvalid
	}
	if h.appendTo {
		h.pos = len(h.n.data)
	}
	data := append([]byte{}, h.n.data...)
	for i, c := range b {
		if h.pos+i < len(data) {
			data[h.pos+i] = c
		} else {
			data = append(data, c)
		}
	}
	h.n.data = data
	h.pos += len(b)
	return len(b), nil
}

func FileClose(f *os.File) error {
	h := handles[f]
	if h == nil || h.closed {
		return ErrClosed
	}
	h.closed = true
	return nil
}

func FileSync(f *os.File) error {
	h := handles[f]
	if h == nil || h.closed {
		return ErrClosed
	}
	return nil
}

func FileStat(f *os.File) (os.FileInfo, error) {
	h := handles[f]
	if h == nil || h.closed {
		return nil, ErrClosed
	}
	return infoOf(h.n, h.n.name), nil
}

// FileReadFrom / FileWriteTo implement the io.ReaderFrom / io.WriterTo fast
// paths of *os.File used by io.Copy.
func FileReadFrom(f *os.File, r io.Reader) (int64, error) {
	var total int64
	buf := make([]byte, 8)
	for i := 0; i < 4096; i++ {
		n, err := r.Read(buf)
		if n > 0 {
			if _, werr := FileWrite(f, buf[:n]); werr != nil {
				return total, werr
			}
			total += int64(n)
		}
		if err == io.EOF {
			return total, nil
		}
		if err != nil {
			return total, err
		}
	}
	return total, ErrInvalid
}

func FileWriteTo(f *os.File, w io.Writer) (int64, error) {
	var total int64
	buf := make([]byte, 8)
	for i := 0; i < 4096; i++ {
		n, err := FileRead(f, buf)
		if n > 0 {
			if _, werr := w.Write(buf[:n]); werr != nil {
				return total, werr
			}
			total += int64(n)
		}
		if err == io.EOF {
			return total, nil
		}
		if err != nil {
			return total, err
		}
	}
	return total, ErrInvalid
}

// sortedKids returns the children in byte-wise name order (ReadDir sorts).
func sortedKids(n *node) []*node {
	out := append([]*node{}, n.kids...)
	for i := 1; i < len(out); i++ {
		for j := i; j > 0 && out[j].name < out[j-1].name; j-- {
			out[j], out[j-1] = out[j-1], out[j]
		}
	}
	return out
}

func ReadDir(p string) ([]os.FileInfo, error) {
	logPath(p)
	if tooLong(p) {
		return nil, ErrNameTooLong
	}
	n, err := walkTo(split(p))
	if err != nil {
		return nil, err
	}
	if !n.dir {
		return nil, ErrNotDir
	}
	var out []os.FileInfo
	for _, k := range sortedKids(n) {
		out = append(out, infoOf(k, k.name))
	}
	return out, nil
}

func ReadFile(p string) ([]byte, error) {
	logPath(p)
	if tooLong(p) {
		return nil, ErrNameTooLong
	}
	n, err := walkTo(split(p))
	if err != nil {
		return nil, err
	}
	if n.dir {
		return nil, ErrIsDir
	}
	if needDir(p) {
		return nil, ErrNotDir
	}
	return append([]byte{}, n.data...), nil
}

func WriteFile(p string, data []byte, perm os.FileMode) error {
	f, err := OpenFile(p, oWRONLY|oCREATE|oTRUNC, perm)
	if err != nil {
		return err
	}
	_, err = FileWrite(f, data)
	if cerr := FileClose(f); err == nil {
		err = cerr
	}
	return err
}

// Abs: paths are already absolute in the harnesses; a relative one is taken
// relative to /cwd. The result is lexically cleaned like filepath.Abs.
func Abs(p string) (string, error) {
	if len(p) == 0 || p[0] != '/' {
		p = "/cwd/" + p
	}
	segs := split(p)
	out := ""
	for _, s := range segs {
		out += "/" + s
	}
	if out == "" {
		out = "/"
	}
	return out, nil
}

// Walk mirrors filepath.Walk: lexical order, fn(root, nil, err) when the
// root cannot be stat'ed.
func Walk(rootPath string, fn func(path string, info os.FileInfo, err error) error) error {
	logPath(rootPath)
	segs := split(rootPath)
	n, err := walkTo(segs)
	if err == nil && needDir(rootPath) && !n.dir {
		err = ErrNotDir
	}
	if tooLong(rootPath) {
		err = ErrNameTooLong
	}
	if err != nil {
		return fn(rootPath, nil, err)
	}
	name := "/"
	if len(segs) > 0 {
		name = segs[len(segs)-1]
	}
	err = walk(rootPath, n, name, fn)
	if err == SkipDir {
		return nil
	}
	return err
}

// cleanJoin mirrors filepath.Join (lexically cleaned result).
func cleanJoin(p, name string) string {
	out := ""
	for _, s := range splitLex(p + "/" + name) {
		if out != "" || (len(p) > 0 && p[0] == '/') {
			out += "/"
		}
		out += s
	}
	return out
}

// SkipDir is filepath.SkipDir (= io/fs.SkipDir).
var SkipDir = fs.SkipDir

func walk(p string, n *node, name string, fn func(path string, info os.FileInfo, err error) error) error {
	if !n.dir {
		return fn(p, infoOf(n, name), nil)
	}
	// filepath.Walk reads the names of a directory BEFORE it calls fn for the
	// directory: entries that fn creates in it are not visited
	kids := sortedKids(n)
	if tooLong(p) {
		// the listing itself fails: one call carrying the error
		return fn(p, infoOf(n, name), ErrNameTooLong)
	}
	if err := fn(p, infoOf(n, name), nil); err != nil {
		return err
	}
	for _, k := range kids {
		kp := cleanJoin(p, k.name)
		if err := walk(kp, k, k.name, fn); err != nil {
			if !k.dir || err != SkipDir {
				return err
			}
		}
	}
	return nil
}

// Outside reports whether some logged path does not lie under prefix
// (confinement monitor): every path must be prefix itself or start with
// prefix + "/".
func Outside(prefix string) bool {
	for _, p := range Log {
		segs := split(p)
		pre := split(prefix)
		if len(segs) < len(pre) {
			return true
		}
		for i := range pre {
			if segs[i] != pre[i] {
				return true
			}
		}
	}
	return false
}

// dirEntry implements os.DirEntry for ReadDirEntries (os.ReadDir).
type dirEntry struct{ i info }

func (d dirEntry) Name() string { return d.i.name }
func (d dirEntry) IsDir() bool  { return d.i.dir }
func (d dirEntry) Type() os.FileMode {
	if d.i.dir {
		return os.ModeDir
	}
	return 0
}
func (d dirEntry) Info() (os.FileInfo, error) { return d.i, nil }

// ReadDirEntries mirrors os.ReadDir (entries sorted by name).
func ReadDirEntries(p string) ([]os.DirEntry, error) {
	l, err := ReadDir(p)
	if err != nil {
		return nil, err
	}
	out := make([]os.DirEntry, 0, len(l))
	for _, x := range l {
		out = append(out, dirEntry{x.(info)})
	}
	return out, nil
}

// IsNotExist / IsExist classify the model's errors like os.IsNotExist and
// os.IsExist classify the kernel's (ENOENT; EEXIST, ENOTEMPTY).
func IsNotExist(err error) bool { return err == ErrNotExist }
func IsExist(err error) bool    { return err == ErrExist || err == ErrNotEmpty }

// Snapshot helpers for harnesses.
func Exists(p string) bool { _, err := walkTo(split(p)); return err == nil }
func Content(p string) ([]byte, bool) {
	n, err := walkTo(split(p))
	if err != nil || n.dir {
		return nil, false
	}
	return n.data, true
}
func Count(p string) int {
	n, err := walkTo(split(p))
	if err != nil {
		return -1
	}
	return count(n)
}
func count(n *node) int {
	c := 0
	for _, k := range n.kids {
		c += 1 + count(k)
	}
	return c
}
