//go:build verif

package reftree

import (
	"errors"
	"io"
	"os"
	"time"

	"github.com/goatcms/goatcore/filesystem"
)

// FS is the reference tree behind the filesystem.Filespace interface, with a
// mutation counter, a call log and single-fault injection: the FailAt-th
// fallible call (mutations, opening of streams, and every stream
// Read/Write/Close) returns ErrInjected instead of acting.
type FS struct {
	Root      *Node
	Base      []string // view root inside Root
	Calls     *int
	FailAt    *int
	Mutations *int
	Log       *[]string
	// Deferred: streams opened by Writer make their bytes durable only when
	// Close succeeds (a buffering back end); otherwise on every Write.
	Deferred *bool
}

var ErrInjected = errors.New("injected I/O failure")
var errRef = errors.New("reference filespace: operation refused")

func NewFS(root *Node) *FS {
	calls, failAt, muts := 0, -1, 0
	deferred := false
	return &FS{Root: root, Calls: &calls, FailAt: &failAt, Mutations: &muts, Log: &[]string{}, Deferred: &deferred}
}

// fault counts one fallible call and reports whether it must fail.
func (f *FS) fault() bool {
	n := *f.Calls
	*f.Calls = n + 1
	return n == *f.FailAt
}

func (f *FS) resolve(p string) ([]string, bool) {
	segs, climbs := Norm(p)
	if climbs {
		return nil, false
	}
	return append(append([]string{}, f.Base...), segs...), true
}

type info struct {
	name string
	dir  bool
	size int64
}

func (i info) Name() string { return i.name }
func (i info) Size() int64  { return i.size }
func (i info) Mode() os.FileMode {
	if i.dir {
		return os.ModeDir | 0777
	}
	return 0644
}
func (i info) ModTime() time.Time { return time.Time{} }
func (i info) IsDir() bool        { return i.dir }
func (i info) Sys() interface{}   { return nil }

func infoOf(n *Node) os.FileInfo { return info{n.Name, n.Dir, int64(len(n.Data))} }

func (f *FS) copyOp(src, dest string, kind int) error {
	if f.fault() {
		return ErrInjected
	}
	s, ok1 := f.resolve(src)
	d, ok2 := f.resolve(dest)
	if !ok1 || !ok2 || len(d) == len(f.Base) {
		return errRef
	}
	n := f.Root.Find(s)
	if n == nil || (kind == 1 && !n.Dir) || (kind == 2 && n.Dir) {
		return errRef
	}
	if IsPrefix(s, d) {
		return errRef
	}
	if !f.Root.CopyTo(n, d) {
		return errRef
	}
	*f.Mutations++
	return nil
}

func (f *FS) Copy(src, dest string) error          { return f.copyOp(src, dest, 0) }
func (f *FS) CopyDirectory(src, dest string) error { return f.copyOp(src, dest, 1) }
func (f *FS) CopyFile(src, dest string) error      { return f.copyOp(src, dest, 2) }

func (f *FS) ReadDir(p string) ([]os.FileInfo, error) {
	s, ok := f.resolve(p)
	if !ok {
		return nil, errRef
	}
	n := f.Root.Find(s)
	if n == nil || !n.Dir {
		return nil, errRef
	}
	out := make([]os.FileInfo, 0, len(n.Kids))
	for _, k := range n.Kids {
		out = append(out, infoOf(k))
	}
	return out, nil
}

func (f *FS) find(p string) *Node {
	s, ok := f.resolve(p)
	if !ok {
		return nil
	}
	return f.Root.Find(s)
}

func (f *FS) IsExist(p string) bool { return f.find(p) != nil }
func (f *FS) IsFile(p string) bool  { n := f.find(p); return n != nil && !n.Dir }
func (f *FS) IsDir(p string) bool   { n := f.find(p); return n != nil && n.Dir }

func (f *FS) MkdirAll(p string, mode os.FileMode) error {
	if f.fault() {
		return ErrInjected
	}
	s, ok := f.resolve(p)
	if !ok {
		return errRef
	}
	before := f.Root.Count()
	if !f.Root.MkdirAll(s) {
		return errRef
	}
	if f.Root.Count() != before {
		*f.Mutations++
	}
	return nil
}

func (f *FS) ReadFile(p string) ([]byte, error) {
	n := f.find(p)
	if n == nil || n.Dir {
		return nil, errRef
	}
	return append([]byte{}, n.Data...), nil
}

func (f *FS) WriteFile(p string, data []byte, perm os.FileMode) error {
	if f.fault() {
		return ErrInjected
	}
	s, ok := f.resolve(p)
	if !ok || len(s) == len(f.Base) {
		return errRef
	}
	if !f.Root.WriteFile(s, data) {
		return errRef
	}
	*f.Mutations++
	return nil
}

func (f *FS) Filespace(p string) (filesystem.Filespace, error) {
	s, ok := f.resolve(p)
	if !ok {
		return nil, errRef
	}
	n := f.Root.Find(s)
	if n == nil || !n.Dir {
		return nil, errRef
	}
	c := *f
	c.Base = s
	return &c, nil
}

type rhandle struct {
	f    *FS
	data []byte
	pos  int
}

func (r *rhandle) Read(p []byte) (int, error) {
	if r.f.fault() {
		return 0, ErrInjected
	}
	if r.pos >= len(r.data) {
		return 0, io.EOF
	}
	n := copy(p, r.data[r.pos:])
	r.pos += n
	return n, nil
}

func (r *rhandle) Close() error {
	if r.f.fault() {
		return ErrInjected
	}
	return nil
}

func (f *FS) Reader(p string) (filesystem.Reader, error) {
	if f.fault() {
		return nil, ErrInjected
	}
	n := f.find(p)
	if n == nil || n.Dir {
		return nil, errRef
	}
	return &rhandle{f: f, data: append([]byte{}, n.Data...)}, nil
}

type whandle struct {
	f    *FS
	node *Node
	buf  []byte
}

func (w *whandle) Write(p []byte) (int, error) {
	if w.f.fault() {
		return 0, ErrInjected
	}
	w.buf = append(w.buf, p...)
	if !*w.f.Deferred {
		w.node.Data = append([]byte{}, w.buf...)
		*w.f.Mutations++
	}
	return len(p), nil
}

func (w *whandle) Close() error {
	if w.f.fault() {
		return ErrInjected
	}
	if *w.f.Deferred {
		w.node.Data = append([]byte{}, w.buf...)
		*w.f.Mutations++
	}
	return nil
}

// Writer creates or truncates the file (parents must exist, like on disk).
func (f *FS) Writer(p string) (filesystem.Writer, error) {
	if f.fault() {
		return nil, ErrInjected
	}
	s, ok := f.resolve(p)
	if !ok || len(s) == len(f.Base) {
		return nil, errRef
	}
	if !f.Root.ParentExists(s) {
		return nil, errRef
	}
	if !f.Root.WriteFile(s, nil) {
		return nil, errRef
	}
	*f.Mutations++
	return &whandle{f: f, node: f.Root.Find(s)}, nil
}

func (f *FS) Remove(p string) error {
	if f.fault() {
		return ErrInjected
	}
	s, ok := f.resolve(p)
	if !ok || len(s) == len(f.Base) {
		return errRef
	}
	if !f.Root.Remove(s) {
		return errRef
	}
	*f.Mutations++
	return nil
}

func (f *FS) RemoveAll(p string) error {
	if f.fault() {
		return ErrInjected
	}
	s, ok := f.resolve(p)
	if !ok || len(s) == len(f.Base) {
		return errRef
	}
	if f.Root.Find(s) == nil {
		return nil
	}
	f.Root.RemoveAll(s)
	*f.Mutations++
	return nil
}

func (f *FS) Lstat(p string) (os.FileInfo, error) {
	n := f.find(p)
	if n == nil {
		return nil, errRef
	}
	return infoOf(n), nil
}
