//go:build verif

// Package reftree is the oracle shared by the filespace properties: a plain
// tree-of-named-nodes with the operations written from the statement of C01,
// a reference path normaliser, and a structural comparison of any
// filesystem.Filespace (through its public API only) with a reference tree.
package reftree

import (
	"bytes"

	"github.com/goatcms/goatcore/filesystem"
	"github.com/goatcms/goatcore/zzverif/nd"
)

type Node struct {
	Name string
	Dir  bool
	Data []byte
	Kids []*Node
}

func NewRoot() *Node { return &Node{Dir: true} }

// Norm is the reference path normaliser: split on '/', drop "" and ".",
// ".." removes the previous segment; a ".." with nothing to remove sets
// climbs (and is dropped).
func Norm(p string) (segs []string, climbs bool) {
	start := 0
	for i := 0; i <= len(p); i++ {
		if i < len(p) && p[i] != '/' {
			continue
		}
		seg := p[start:i]
		start = i + 1
		if seg == "" {
			continue
		}
		if seg == "." {
			continue
		}
		if seg == ".." {
			if len(segs) == 0 {
				climbs = true
			} else {
				segs = segs[:len(segs)-1]
			}
			continue
		}
		segs = append(segs, seg)
	}
	return segs, climbs
}

// Join renders segments as a canonical relative path ("." for the root).
func Join(segs []string) string {
	if len(segs) == 0 {
		return "."
	}
	out := segs[0]
	for _, s := range segs[1:] {
		out += "/" + s
	}
	return out
}

func (n *Node) Child(name string) *Node {
	for _, k := range n.Kids {
		if k.Name == name {
			return k
		}
	}
	return nil
}

func (n *Node) Find(segs []string) *Node {
	cur := n
	for _, s := range segs {
		if cur == nil || !cur.Dir {
			return nil
		}
		cur = cur.Child(s)
	}
	return cur
}

func (n *Node) Clone() *Node {
	c := &Node{Name: n.Name, Dir: n.Dir}
	if n.Data != nil {
		c.Data = append([]byte{}, n.Data...)
	}
	for _, k := range n.Kids {
		c.Kids = append(c.Kids, k.Clone())
	}
	return c
}

func (n *Node) removeChild(name string) {
	for i, k := range n.Kids {
		if k.Name == name {
			n.Kids = append(append([]*Node{}, n.Kids[:i]...), n.Kids[i+1:]...)
			return
		}
	}
}

// Count returns the number of nodes below n.
func (n *Node) Count() int {
	c := 0
	for _, k := range n.Kids {
		c += 1 + k.Count()
	}
	return c
}

// parentsOK reports whether every proper prefix of segs is a directory or
// missing (no file on the way).
func (n *Node) parentsOK(segs []string) bool {
	cur := n
	for _, s := range segs[:len(segs)-1] {
		k := cur.Child(s)
		if k == nil {
			return true
		}
		if !k.Dir {
			return false
		}
		cur = k
	}
	return true
}

// ParentExists reports whether the parent directory of segs exists.
func (n *Node) ParentExists(segs []string) bool {
	p := n.Find(segs[:len(segs)-1])
	return p != nil && p.Dir
}

func (n *Node) mkParents(segs []string) *Node {
	cur := n
	for _, s := range segs {
		k := cur.Child(s)
		if k == nil {
			k = &Node{Name: s, Dir: true}
			cur.Kids = append(cur.Kids, k)
		}
		cur = k
	}
	return cur
}

// WriteFile: creates parents, creates or replaces the file. segs non-empty.
func (n *Node) WriteFile(segs []string, data []byte) bool {
	if !n.parentsOK(segs) {
		return false
	}
	if t := n.Find(segs); t != nil {
		if t.Dir {
			return false
		}
		t.Data = append([]byte{}, data...)
		return true
	}
	dir := n.mkParents(segs[:len(segs)-1])
	dir.Kids = append(dir.Kids, &Node{Name: segs[len(segs)-1], Data: append([]byte{}, data...)})
	return true
}

// MkdirAll: all components exist as directories afterwards.
func (n *Node) MkdirAll(segs []string) bool {
	if len(segs) == 0 {
		return true
	}
	if !n.parentsOK(segs) {
		return false
	}
	if t := n.Find(segs); t != nil && !t.Dir {
		return false
	}
	n.mkParents(segs)
	return true
}

// Remove: file or empty directory only. segs non-empty.
func (n *Node) Remove(segs []string) bool {
	t := n.Find(segs)
	if t == nil {
		return false
	}
	if t.Dir && len(t.Kids) > 0 {
		return false
	}
	n.Find(segs[:len(segs)-1]).removeChild(t.Name)
	return true
}

// RemoveAll of an existing node. segs non-empty.
func (n *Node) RemoveAll(segs []string) bool {
	t := n.Find(segs)
	if t == nil {
		return false
	}
	n.Find(segs[:len(segs)-1]).removeChild(t.Name)
	return true
}

// CopyTo places a deep copy of src at dst (dst absent, parents created).
func (n *Node) CopyTo(src *Node, dst []string) bool {
	if !n.parentsOK(dst) {
		return false
	}
	if n.Find(dst) != nil {
		return false
	}
	c := src.Clone()
	c.Name = dst[len(dst)-1]
	dir := n.mkParents(dst[:len(dst)-1])
	dir.Kids = append(dir.Kids, c)
	return true
}

// IsPrefix reports whether a is a prefix of (or equal to) b.
func IsPrefix(a, b []string) bool {
	if len(a) > len(b) {
		return false
	}
	for i := range a {
		if a[i] != b[i] {
			return false
		}
	}
	return true
}

// Same compares fs (through its public API) with the reference directory n
// located at path segs of fs. The result is a single condition (no
// assertion is made here). ReadDir is compared as a set; because names are
// unique in the reference and the counts are equal, "every reference child
// is listed" implies equality of the sets — and any phantom entry (".", "..",
// "") makes the counts differ.
func Same(fs filesystem.Filespace, n *Node, segs []string) bool {
	infos, err := fs.ReadDir(Join(segs))
	if err != nil {
		return false
	}
	if len(infos) != len(n.Kids) {
		return false
	}
	ok := true
	for _, k := range n.Kids {
		found := false
		for _, inf := range infos {
			found = nd.Or(found, nd.And(inf.Name() == k.Name, inf.IsDir() == k.Dir))
		}
		ok = nd.And(ok, found)
		ks := append(append([]string{}, segs...), k.Name)
		kp := Join(ks)
		ok = nd.And(ok, fs.IsExist(kp))
		if k.Dir {
			ok = nd.And(ok, nd.And(fs.IsDir(kp), !fs.IsFile(kp)))
			ok = nd.And(ok, Same(fs, k, ks))
		} else {
			ok = nd.And(ok, nd.And(fs.IsFile(kp), !fs.IsDir(kp)))
			data, err := fs.ReadFile(kp)
			if err != nil {
				return false
			}
			ok = nd.And(ok, bytes.Equal(data, k.Data))
		}
	}
	return ok
}

// SameShallow is Same without reading file contents via IsExist/IsDir (used
// where the cost matters): listing names/kinds and file bytes only.
func SameShallow(fs filesystem.Filespace, n *Node, segs []string) bool {
	infos, err := fs.ReadDir(Join(segs))
	if err != nil {
		return false
	}
	if len(infos) != len(n.Kids) {
		return false
	}
	ok := true
	for _, k := range n.Kids {
		found := false
		for _, inf := range infos {
			found = nd.Or(found, nd.And(inf.Name() == k.Name, inf.IsDir() == k.Dir))
		}
		ok = nd.And(ok, found)
		ks := append(append([]string{}, segs...), k.Name)
		if k.Dir {
			ok = nd.And(ok, SameShallow(fs, k, ks))
		} else {
			data, err := fs.ReadFile(Join(ks))
			if err != nil {
				return false
			}
			ok = nd.And(ok, bytes.Equal(data, k.Data))
		}
	}
	return ok
}
