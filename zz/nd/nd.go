// Package nd is the harness intrinsic package ("nondeterministic values").
//
// Under the symbolic engine (gosym) every function below is intercepted by
// name and never executes its body. Compiled natively (replay), the values
// are popped from a recorded counterexample file in call order, Assert
// records a failure, Assume skips the run.
package nd

import (
	"encoding/json"
	"fmt"
	"os"
	"runtime"
	"runtime/debug"
	"strconv"
	"strings"
	"sync"
)

type rec struct {
	Label string `json:"label"`
	Kind  string `json:"kind"`
	Value int64  `json:"value"`
}

type replayFile struct {
	Harness string         `json:"harness"`
	Params  map[string]int `json:"params"`
	ND      []rec          `json:"nd"`
	Label   string         `json:"label"`
}

var (
	mu       sync.Mutex
	rf       replayFile
	pos      int
	failures []string
	events   []string
	desync   string
)

type skip struct{}

type exhausted struct{}

func pop(label, kind string) int64 {
	mu.Lock()
	defer mu.Unlock()
	if pos >= len(rf.ND) {
		// the recorded path ended here (the engine stops a path at a failed
		// assertion); stop the native run at the same point
		panic(exhausted{})
	}
	r := rf.ND[pos]
	pos++
	if r.Kind != kind || r.Label != label {
		if desync == "" {
			desync = fmt.Sprintf("replay desync at #%d: recorded %s/%s, asked %s/%s", pos-1, r.Kind, r.Label, kind, label)
		}
	}
	return r.Value
}

// Param returns a harness bound chosen by the driver (tier dependent).
func Param(name string, def int) int {
	if v, ok := rf.Params[name]; ok {
		return v
	}
	return def
}

func Bool(label string) bool { return pop(label, "bool") != 0 }
func Byte(label string) byte { return byte(pop(label, "byte")) }
func Int(label string) int   { return int(pop(label, "int")) }

// IntRange returns a symbolic int assumed to lie in [lo,hi].
func IntRange(label string, lo, hi int) int { return int(pop(label, "int")) }

// Choose is a concretising choice 0..n-1 (one path per value).
func Choose(label string, n int) int { return int(pop(label, "choose")) }

// Bytes returns n unconstrained bytes.
func Bytes(label string, n int) []byte {
	b := make([]byte, n)
	for i := range b {
		b[i] = byte(pop(label, "byte"))
	}
	return b
}

// BytesUpTo returns 0..max unconstrained bytes (one path per length).
func BytesUpTo(label string, max int) []byte {
	n := int(pop(label, "len"))
	return Bytes(label, n)
}

func String(label string, n int) string       { return string(Bytes(label, n)) }
func StringUpTo(label string, max int) string { return string(BytesUpTo(label, max)) }

// Assume restricts the explored inputs.
func Assume(cond bool) {
	if !cond {
		panic(skip{})
	}
}

// Assert states the property.
func Assert(cond bool, label string) {
	if !cond {
		mu.Lock()
		failures = append(failures, label)
		mu.Unlock()
	}
}

// And, Or, Implies, Not, Ite build conditions without branching.
func And(a, b bool) bool     { return a && b }
func Or(a, b bool) bool      { return a || b }
func Implies(a, b bool) bool { return !a || b }
func Not(a bool) bool        { return !a }

// Feasible reports whether cond can be true for some input on the current
// path (engine: a solver query, no fork, no constraint added); natively it is
// cond itself.
func Feasible(cond bool) bool { return cond }

// Reach marks a point that must be reached on at least one path.
func Reach(label string) {}

// Log appends to the event log printed with counterexamples.
func Log(ev ...interface{}) {
	mu.Lock()
	events = append(events, fmt.Sprint(ev...))
	mu.Unlock()
}

// Events returns the number of events logged so far.
func Events() int { mu.Lock(); defer mu.Unlock(); return len(events) }

// Yield is an extra scheduling point.
func Yield() { runtime.Gosched() }

// Pause models a long-running stretch of code: under the engine any other
// runnable goroutine may be scheduled here without spending a preemption.
func Pause() { runtime.Gosched() }

// Schedule enables schedule exploration with preemption bound p.
func Schedule(p int) {}

// SymbolicRand makes math/rand sources return arbitrary (symbolic) values.
func SymbolicRand() {}

// MapRaces enables detection of overlapping map accesses.
func MapRaces() {}

// Races enables happens-before data-race detection on the explored
// schedules; a race is not reported when one of its two access sites
// contains one of the ignore strings.
func Races(ignore ...string) {}

// RacesSeen returns the number of data races detected so far on this path
// (with Races("*") races are only counted, not reported; used by the litmus
// tests of the detector). Natively 0.
func RacesSeen() int { return 0 }

// MapOrder enables exploration of map iteration start offsets.
func MapOrder() {}

// Quiesce runs the other goroutines until none can run.
func Quiesce() {
	for i := 0; i < 1000; i++ {
		runtime.Gosched()
	}
}

// SetNumCPU sets the value returned by the runtime.NumCPU stub.
func SetNumCPU(n int) {}

// Concrete reports whether the run is a native replay.
func Concrete() bool { return true }

// T is the subset of testing.T used by RunReplay.
type T interface {
	Fatalf(format string, args ...interface{})
	Logf(format string, args ...interface{})
}

// RunReplay runs the recorded counterexample named by $ZZ_REPLAY.
func RunReplay(t T, harnesses map[string]func()) {
	path := os.Getenv("ZZ_REPLAY")
	if path == "" {
		t.Logf("no ZZ_REPLAY set")
		return
	}
	data, err := os.ReadFile(path)
	if err != nil {
		t.Fatalf("read replay: %v", err)
	}
	if err := json.Unmarshal(data, &rf); err != nil {
		t.Fatalf("parse replay: %v", err)
	}
	h, ok := harnesses[rf.Harness]
	if !ok {
		t.Fatalf("unknown harness %s", rf.Harness)
	}
	stress, _ := strconv.Atoi(os.Getenv("ZZ_STRESS"))
	for it := 0; it < stress; it++ {
		// schedule-dependent counterexample: repeat under the real scheduler
		// (a panic in a goroutine aborts the process and is seen by the driver)
		mu.Lock()
		pos, failures, events, desync = 0, nil, nil, ""
		mu.Unlock()
		runtime.GOMAXPROCS(1 + it%4)
		func() {
			defer func() { recover() }()
			h()
		}()
		mu.Lock()
		nf := len(failures)
		mu.Unlock()
		if nf > 0 {
			fmt.Println("REPLAY-STRESS-ITER:", it)
			goto report
		}
	}
	mu.Lock()
	pos, failures, events, desync = 0, nil, nil, ""
	mu.Unlock()
	func() {
		defer func() {
			if r := recover(); r != nil {
				if _, ok := r.(skip); ok {
					fmt.Println("REPLAY-SKIP: assumption false")
					return
				}
				if _, ok := r.(exhausted); ok {
					fmt.Println("REPLAY-END: recorded values exhausted")
					return
				}
				st := string(debug.Stack())
				fmt.Printf("REPLAY-PANIC: %v\n", r)
				for _, l := range strings.Split(st, "\n") {
					if strings.Contains(l, ".go:") {
						fmt.Println("REPLAY-STACK:", strings.TrimSpace(l))
					}
				}
			}
		}()
		h()
	}()
report:
	for _, e := range events {
		fmt.Println("REPLAY-EVENT:", e)
	}
	if desync != "" {
		fmt.Println("REPLAY-DESYNC:", desync)
	}
	for _, f := range failures {
		fmt.Println("REPLAY-FAIL:", f)
	}
	fmt.Println("REPLAY-DONE")
}
