#!/bin/bash
# usage: thorough_probe.sh <property> <cap seconds>  - runs the thorough tier with a time cap
# (development aid: shows per-harness wall times and whether the cap was hit)
cd /verif; p=$1; cap=${2:-600}
s=$(date +%s)
VERIF_DIR=/verif ./bin/gosym check -spec harness/$p -tier thorough -noevidence -budget $cap > /tmp/probe_$p.log 2>&1; r=$?
echo "$p exit=$r $(( $(date +%s) - s ))s"
grep "^\[" /tmp/probe_$p.log | sed 's/infeasible.*solver=/ solver=/' | cut -c1-150
grep "INCONCLUSIVE\|VIOLATION" /tmp/probe_$p.log | cut -c1-200 | head -5
