#!/bin/bash
# Runs every thorough check in sequence (background use); prints one line each.
cd "$(dirname "$0")/.." || exit 2
export GOFLAGS=-mod=mod GOPROXY=off GOSUMDB=off GOTOOLCHAIN=local VERIF_DIR="$(pwd)"
[ -x bin/gosym ] || (cd engine && go build -o ../bin/gosym .)
for p in ${@:-C01 C02 C03 C04 C05 C06 C07 C08 C09 C10 C11 C12 C13 C14 C15 C16 C17 C18 C19 C20}; do
  s=$(date +%s)
  ./bin/gosym check -spec harness/$p -tier thorough > thorough_$p.log 2>&1; r=$?
  e=$(( $(date +%s) - s ))
  echo "$p exit=$r ${e}s"; grep "^\[\|INCONCLUSIVE\|VIOLATION" thorough_$p.log | cut -c1-220
done
