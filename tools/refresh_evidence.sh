#!/bin/bash
# Re-runs every registered quick check on /repo's current tree so that the
# committed evidence files describe exactly such a run. Prints one line per
# property; exits non-zero if any check does.
cd /verif || exit 2
rc=0
for p in $(python3 -c "import json;print(' '.join(c['property_id'] for c in json.load(open('MANIFEST.json'))['checks']))"); do
  s=$(date +%s)
  ./checks/run $p quick > /tmp/refresh_$p.log 2>&1; r=$?
  e=$(( $(date +%s) - s ))
  echo "$p exit=$r ${e}s $(grep -c KNOWN-FINDING /tmp/refresh_$p.log) known-finding line(s)"
  [ $r -ne 0 ] && rc=1
done
exit $rc
