#!/bin/bash
# usage: seeds_all.sh [tier]   - runs every stored seeded change through its
# property's check (scratch worktree of /repo HEAD, see seedrun.sh) and
# prints CAUGHT / MISSED per seed. Exit 0 iff all are caught.
cd /verif
tier=${1:-quick}; miss=0
for d in seeded/*/; do
  name=$(basename $d); prop=${name%%-*}
  if grep -q '"superseded_by"' $d/meta.json; then
    echo "SUPERSEDED $name (neutralised by a later repair of /repo, see meta.json)"; continue
  fi
  out=$(tools/seedrun.sh $d/patch.diff $prop $tier 2>&1)
  if echo "$out" | grep -q "^exit=1" && echo "$out" | grep -q "VIOLATION property=$prop"; then
    echo "CAUGHT $name $(echo "$out" | grep -m1 VIOLATION | sed 's/.*label=\([^ ]*\).*/\1/')"
  else
    echo "MISSED $name ($(echo "$out" | head -1))"; miss=1
  fi
done
exit $miss
