#!/bin/bash
# usage: seedcheck.sh <seedname> <worktree> <seeddir> <demo package dir (rel)> <test packages...>
# Confirms a candidate seeded change: builds, existing tests pass with it, demo fails with it, demo passes without it.
export GOFLAGS=-mod=mod GOPROXY=off GOSUMDB=off GOTOOLCHAIN=local
name=$1; wt=$2; sd=$3; demopkg=$4; shift 4
cd $wt || exit 2
git checkout -q -- . ; git clean -fdq
git apply $sd/patch.diff || { echo "PATCH DOES NOT APPLY"; exit 2; }
echo "== build"; go build ./... || { echo BUILD-FAIL; exit 1; }
echo "== existing tests with change"; timeout 600 go test -count=1 "$@" 2>&1 | grep -v "^ok\|no test files" ; 
cp $sd/demo_test.go $wt/$demopkg/zz_demo_test.go
echo "== demo WITH change (expect FAIL)"; timeout 300 go test -count=1 -run . ./$demopkg/ 2>&1 | tail -4
git checkout -q -- . 
echo "== demo WITHOUT change (expect ok)"; timeout 300 go test -count=1 -run . ./$demopkg/ 2>&1 | tail -2
rm -f $wt/$demopkg/zz_demo_test.go
git apply $sd/patch.diff
