#!/bin/bash
# usage: seedrun.sh <patch> <property> [tier]   — applies the patch to /repo, runs the check, reverts.
# (no git stash: stashes are shared between worktrees)
patch=$1; prop=$2; tier=${3:-quick}
cd /repo || exit 2
git diff > /tmp/repo_wip_$$.diff
git checkout -q -- .
git apply $patch || { echo "PATCH DOES NOT APPLY to /repo"; git apply /tmp/repo_wip_$$.diff 2>/dev/null; exit 2; }
cp /verif/evidence/$prop.json /tmp/ev_$$.json 2>/dev/null
cd /verif && ./checks/run $prop $tier > /tmp/seedrun_$prop.log 2>&1; rc=$?
cp /tmp/ev_$$.json /verif/evidence/$prop.json 2>/dev/null; rm -f /tmp/ev_$$.json
cd /repo && git checkout -q -- . ; [ -s /tmp/repo_wip_$$.diff ] && git apply /tmp/repo_wip_$$.diff; rm -f /tmp/repo_wip_$$.diff
echo "exit=$rc"; grep "VIOLATION\|KNOWN-FINDING\|INCONCLUSIVE\|UNCONFIRMED\|^OK" /tmp/seedrun_$prop.log | cut -c1-260 | head -12
