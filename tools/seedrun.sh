#!/bin/bash
# usage: seedrun.sh <patch> <property> [tier]
# Applies the patch to a scratch worktree of /repo's HEAD (never to /repo
# itself), runs the check against that tree (GOSYM_REPO), removes the worktree.
# The committed evidence file of the property is preserved.
patch=$(readlink -f $1); prop=$2; tier=${3:-quick}
wt=/tmp/seedrun_wt_$$
git -C /repo worktree add -q --detach $wt HEAD || exit 2
( cd $wt && git apply $patch ) || { echo "PATCH DOES NOT APPLY"; git -C /repo worktree remove --force $wt; exit 2; }
cp /verif/evidence/$prop.json /tmp/ev_$$.json 2>/dev/null
cd /verif && GOSYM_REPO=$wt ./checks/run $prop $tier > /tmp/seedrun_$prop.log 2>&1; rc=$?
cp /tmp/ev_$$.json /verif/evidence/$prop.json 2>/dev/null; rm -f /tmp/ev_$$.json
git -C /repo worktree remove --force $wt; git -C /repo worktree prune
echo "exit=$rc"; grep "VIOLATION\|KNOWN-FINDING\|INCONCLUSIVE\|UNCONFIRMED\|^OK" /tmp/seedrun_$prop.log | cut -c1-260 | head -12
