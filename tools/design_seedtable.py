#!/usr/bin/env python3
# Regenerates the seed table of DESIGN.md §12 from seeded/*/meta.json
# (between the markers <!-- seedtable:begin --> and <!-- seedtable:end -->).
import json, glob, os, re
rows = []
for d in sorted(glob.glob('/verif/seeded/*/')):
    m = json.load(open(os.path.join(d, 'meta.json')))
    name = os.path.basename(d.rstrip('/'))
    esc = lambda t: t.replace('|', '\\|').replace('\n', ' ')
    res = m['check_result']
    res = re.sub(r'^MISSED', '**missed**', res)
    rows.append('| %s | %s | %s | %s |' % (name, esc(m['breaks']), esc(m['needs_to_manifest']), esc(res)))
table = '| seed | change | needs | result |\n|---|---|---|---|\n' + '\n'.join(rows) + '\n'
s = open('/verif/DESIGN.md').read()
a = s.index('<!-- seedtable:begin -->') + len('<!-- seedtable:begin -->\n')
b = s.index('<!-- seedtable:end -->')
s = s[:a] + table + s[b:]
open('/verif/DESIGN.md', 'w').write(s)
print(len(rows), 'seeds')
