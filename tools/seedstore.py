#!/usr/bin/env python3
# usage: seedstore.py <name e.g. C01-2> <srcdir> <demo pkg dir> <breaks> <needs> <check_result>
# Stores a confirmed seeded change under /verif/seeded/<name>/.
import sys, os, json, shutil
name, src, demopkg, breaks, needs, result = sys.argv[1:7]
prop = name.split('-')[0]
d = os.path.join('/verif/seeded', name)
os.makedirs(d, exist_ok=True)
shutil.copy(os.path.join(src, 'patch.diff'), os.path.join(d, 'patch.diff'))
shutil.copy(os.path.join(src, 'demo_test.go'), os.path.join(d, 'demo_test.go.txt'))
if os.path.exists(os.path.join(src, 'notes.md')):
    shutil.copy(os.path.join(src, 'notes.md'), os.path.join(d, 'notes.md'))
meta = {
 "property": prop,
 "breaks": breaks,
 "needs_to_manifest": needs,
 "demo_package_dir": demopkg,
 "author": "independent sub-agent given only the property text (plus a hint naming clauses to prefer, to differ from the first round) and a scratch worktree",
 "confirmed": "tools/seedcheck.sh: builds; existing tests of the affected packages pass with the change; demo test fails with the change and passes without it (run in a scratch worktree under /tmp, removed afterwards)",
 "check_result": result,
 "ran": "tools/seedrun.sh seeded/%s/patch.diff %s quick" % (name, prop),
}
json.dump(meta, open(os.path.join(d, 'meta.json'), 'w'), indent=1)
print("stored", d)
