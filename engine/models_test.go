package main

// Differential validation of engine-side models against the real library
// (run by modelcheck/run.sh): the regexp NFA->term model must evaluate, for
// every concrete string within the bound, to what regexp.MatchString says.

import (
	"regexp"
	"testing"
)

func TestRegexpModelAgreesWithRegexp(t *testing.T) {
	patterns := []string{
		"^[a-zA-Z]+([_a-zA-Z]+)?$",      // envNamePattern
		"^[a-zA-Z_]+[a-zA-Z0-9_]*$",     // namePattern
		"^[a-zA-Z][A-z_]*$",             // a plausible "simplification"
		"^[a-zA-Z_][a-zA-Z0-9_]*$",
		"[a-z]+",                        // unanchored
		"^a*b?$", "^(ab|a)c$", "^.$", "^[^a-c]x$", "^\\w+$", "^\\s*\\d$", "a$", "^$",
	}
	alphabet := []byte{'a', 'b', 'c', 'z', 'A', 'Z', '_', '0', '9', '`', '[', '{', '@', ' ', '\n', 'x', 0x80, 0xff, 0}
	const maxLen = 3
	n := 0
	for _, pat := range patterns {
		m, err := compileRe(pat)
		if err != nil {
			t.Fatalf("%s: %v", pat, err)
		}
		re := regexp.MustCompile(pat)
		for l := 0; l <= maxLen; l++ {
			tt := NewTermTable()
			fr := &frame{p: &Path{tt: tt}}
			vars := make([]*Term, l)
			bs := make([]value, l)
			for i := range vars {
				vars[i] = tt.Var("b"+string(rune('0'+i)), 8)
				bs[i] = vars[i]
			}
			var res value
			declined := false
			func() {
				defer func() {
					if r := recover(); r != nil {
						if a, ok := r.(abortPath); ok && a.kind == "unsupported" {
							declined = true
							return
						}
						panic(r)
					}
				}()
				res = m.matchSym(fr, bs)
			}()
			if declined {
				t.Logf("pattern %q: model declines (reported as inconclusive by the engine)", pat)
				break
			}
			idx := make([]int, l)
			for {
				str := make([]byte, l)
				model := map[*Term]uint64{}
				for i := range idx {
					str[i] = alphabet[idx[i]]
					model[vars[i]] = uint64(str[i])
				}
				var got bool
				switch r := res.(type) {
				case bool:
					got = r
				case *Term:
					got = r.Eval(model, map[*Term]uint64{}) != 0
				default:
					t.Fatalf("%s: unexpected result %T", pat, res)
				}
				// the model matches bytes against ASCII classes; a byte >= 0x80
				// matches no ASCII class in regexp either (it decodes to a
				// non-ASCII rune or U+FFFD)
				want := re.Match(str)
				if got != want {
					t.Errorf("pattern %q input %q: model %v, regexp %v", pat, str, got, want)
				}
				n++
				// next
				k := l - 1
				for k >= 0 {
					idx[k]++
					if idx[k] < len(alphabet) {
						break
					}
					idx[k] = 0
					k--
				}
				if k < 0 {
					break
				}
			}
		}
	}
	t.Logf("regexp model vs regexp: %d (pattern, input) pairs", n)
}
