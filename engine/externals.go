package main

// External functions: nd intrinsics and leaf models of standard-library
// functions that cannot be interpreted from SSA (assembly, unsafe, runtime
// internals) or whose interpretation would only add path explosion.
// Every external used on a run is listed in the evidence (stubs_used).

import (
	"fmt"
	"go/types"
	"strconv"
	"strings"
)

type externalFn func(fr *frame, args []value) value

var externals = map[string]externalFn{}

func init() {
	nd := ndPkgPath + "."
	for k, v := range map[string]externalFn{
		nd + "Param":      extNdParam,
		nd + "Bool":       extNdBool,
		nd + "Byte":       extNdByte,
		nd + "Int":        extNdInt,
		nd + "IntRange":   extNdIntRange,
		nd + "Choose":     extNdChoose,
		nd + "Bytes":      extNdBytes,
		nd + "BytesUpTo":  extNdBytesUpTo,
		nd + "String":     extNdString,
		nd + "StringUpTo": extNdStringUpTo,
		nd + "Assume":     extNdAssume,
		nd + "Assert":     extNdAssert,
		nd + "And":        func(fr *frame, a []value) value { return fr.p.andv(a[0], a[1]) },
		nd + "Or":         func(fr *frame, a []value) value { return fr.p.orv(a[0], a[1]) },
		nd + "Implies":    func(fr *frame, a []value) value { return fr.p.orv(fr.p.notv(a[0]), a[1]) },
		nd + "Not":        func(fr *frame, a []value) value { return fr.p.notv(a[0]) },
		nd + "Reach":      extNdReach,
		nd + "Feasible": func(fr *frame, a []value) value {
			switch c := a[0].(type) {
			case bool:
				return c
			case *Term:
				r, _ := fr.p.feasible(c)
				if r == Unknown {
					fr.p.w.res.inconclusive("solver unknown in nd.Feasible")
				}
				return r != Unsat
			}
			return false
		},
		nd + "Log":        extNdLog,
		nd + "Events":     func(fr *frame, a []value) value { return len(fr.p.events) },
		nd + "Yield":      func(fr *frame, a []value) value { fr.schedPoint("yield"); return nil },
		nd + "Pause":      func(fr *frame, a []value) value { fr.pausePoint(); return nil },
		nd + "Schedule": func(fr *frame, a []value) value {
			fr.p.sched.explore = true
			fr.p.sched.bound = int(asInt64(a[0]))
			return nil
		},
		nd + "SymbolicRand": func(fr *frame, a []value) value { fr.p.symRand = true; return nil },
		nd + "MapRaces":  func(fr *frame, a []value) value { fr.p.sched.mapRaces = true; return nil },
		nd + "Races": func(fr *frame, a []value) value {
			var ignore []string
			for _, x := range a[0].([]value) {
				ignore = append(ignore, strArg(x))
			}
			fr.p.sched.raceInit(ignore)
			return nil
		},
		nd + "RacesSeen": func(fr *frame, a []value) value {
			if fr.p.sched.race == nil {
				return 0
			}
			return fr.p.sched.race.count
		},
		nd + "MapOrder":  func(fr *frame, a []value) value { fr.p.mapOrder = true; return nil },
		nd + "Quiesce":   func(fr *frame, a []value) value { fr.quiesce(); return nil },
		nd + "SetNumCPU": func(fr *frame, a []value) value { fr.p.numCPU = int(asInt64(a[0])); return nil },
		nd + "Concrete":  func(fr *frame, a []value) value { return false },

		"runtime/debug.Stack": func(fr *frame, a []value) value { return []value{} },
		"runtime.Gosched":     func(fr *frame, a []value) value { fr.gosched(); return nil },
		"runtime.NumCPU":      func(fr *frame, a []value) value { return fr.p.numCPU },
		"runtime.GOMAXPROCS":  func(fr *frame, a []value) value { return fr.p.numCPU },
		"time.Sleep":          func(fr *frame, a []value) value { fr.gosched(); return nil },

		"fmt.Sprintf": extFmtSprintf,
		"fmt.Errorf":  extFmtErrorf,
		"fmt.Sprint":  extFmtSprint,
		"fmt.Fprintf":  extFmtFprintf,
		"fmt.Fprint":   extFmtFprint,
		"fmt.Fprintln": extFmtFprint,
		"fmt.Sprintln": func(fr *frame, a []value) value {
			parts := a[0].([]value)
			var out []value
			for i, x := range parts {
				if i > 0 {
					out = append(out, byte(' '))
				}
				out = append(out, fr.displayVals(x)...)
			}
			return valsToStr(append(out, byte('\n')))
		},
		"fmt.Println": func(fr *frame, a []value) value { return tuple{0, iface{}} },
		"fmt.Printf":  func(fr *frame, a []value) value { return tuple{0, iface{}} },
		"fmt.Print":   func(fr *frame, a []value) value { return tuple{0, iface{}} },

		"internal/bytealg.IndexByteString":     extIndexByte,
		"internal/bytealg.IndexByte":           extIndexByte,
		"internal/bytealg.LastIndexByteString": extLastIndexByte,
		"internal/bytealg.LastIndexByte":       extLastIndexByte,
		"internal/bytealg.CountString":         extCountByte,
		"internal/bytealg.Count":               extCountByte,
		"internal/bytealg.Equal":               extBytesEqual,
		"bytes.Equal":                          extBytesEqual,
		"internal/bytealg.Compare":             extBytesCompare,
		"bytes.Compare":                        extBytesCompare,
		"strings.Compare":                      extBytesCompare,
		"internal/bytealg.IndexString":         extIndexString,
		"internal/bytealg.Index":               extIndexString,
		"strings.Index":                        extIndexString,
		"bytes.Index":                          extIndexString,
		"strings.LastIndex":                    extLastIndexString,
		"internal/bytealg.MakeNoZero":          extMakeNoZero,
		"strings.Trim":                         extStringsTrim,
		"strings.TrimLeft":                     extStringsTrim,
		"strings.TrimRight":                    extStringsTrim,
		"strings.TrimSpace":                    extStringsTrimSpace,
		"strings.Fields":                       extStringsFields,
		"internal/stringslite.Index":           extIndexString,
		"internal/stringslite.IndexByte":       extIndexByte,
		"strings.IndexByte":                    extIndexByte,
		"bytes.IndexByte":                      extIndexByte,

		"(*strings.Builder).String":    extBuilderString,
		"(*strings.Builder).copyCheck": func(fr *frame, a []value) value { return nil },
		"(*strings.Builder).grow":      func(fr *frame, a []value) value { return nil },
		"(*strings.Builder).Grow":      func(fr *frame, a []value) value { return nil },
		"strings.Clone":                func(fr *frame, a []value) value { return a[0] },
		"strings.ToLower":              extToLower,
		"strings.ToUpper":              extToUpper,

		"strconv.Itoa":  extItoa,
		"strconv.Atoi":  extAtoi,
		"strconv.Quote": extQuote,

		"internal/reflectlite.TypeOf": extReflectliteTypeOf,
		"os.Getpid": func(fr *frame, a []value) value { return 4242 },
	} {
		externals[k] = v
	}
}

// ---------------------------------------------------------------- nd

func strArg(v value) string {
	if s, ok := v.(string); ok {
		return s
	}
	return "<sym>"
}

func extNdParam(fr *frame, a []value) value {
	name := strArg(a[0])
	if v, ok := fr.p.params[name]; ok {
		return v
	}
	return a[1]
}

func (p *Path) logND(label, kind string, t *Term, conc int64) {
	p.ndlog = append(p.ndlog, ndRec{label, kind, t, conc})
}

func extNdBool(fr *frame, a []value) value {
	p := fr.p
	l := strArg(a[0])
	v := p.newVar(l, 0)
	p.logND(l, "bool", v, 0)
	return v
}

func extNdByte(fr *frame, a []value) value {
	p := fr.p
	l := strArg(a[0])
	v := p.newVar(l, 8)
	p.logND(l, "byte", v, 0)
	return v
}

func extNdInt(fr *frame, a []value) value {
	p := fr.p
	l := strArg(a[0])
	v := p.newVar(l, 64)
	p.logND(l, "int", v, 0)
	return v
}

func extNdIntRange(fr *frame, a []value) value {
	p := fr.p
	l := strArg(a[0])
	lo, hi := asInt64(a[1]), asInt64(a[2])
	if lo == hi {
		p.logND(l, "int", nil, lo)
		return int(lo)
	}
	v := p.newVar(l, 64)
	p.logND(l, "int", v, 0)
	c := p.tt.And(p.tt.Cmp(OpSle, p.tt.BV(uint64(lo), 64), v), p.tt.Cmp(OpSle, v, p.tt.BV(uint64(hi), 64)))
	p.assume(c)
	return v
}

func extNdChoose(fr *frame, a []value) value {
	p := fr.p
	l := strArg(a[0])
	n := int(asInt64(a[1]))
	c := p.choose("choose", n)
	p.logND(l, "choose", nil, int64(c))
	return c
}

func ndBytes(fr *frame, l string, n int) []value {
	p := fr.p
	b := make([]value, n)
	for i := range b {
		v := p.newVar(l, 8)
		p.logND(l, "byte", v, 0)
		b[i] = v
	}
	return b
}

func extNdBytes(fr *frame, a []value) value {
	return ndBytes(fr, strArg(a[0]), int(asInt64(a[1])))
}

func ndLen(fr *frame, l string, max int) int {
	p := fr.p
	n := p.choose("len", max+1)
	p.logND(l, "len", nil, int64(n))
	return n
}

func extNdBytesUpTo(fr *frame, a []value) value {
	l := strArg(a[0])
	n := ndLen(fr, l, int(asInt64(a[1])))
	return ndBytes(fr, l, n)
}

func extNdString(fr *frame, a []value) value {
	return mkStr(ndBytes(fr, strArg(a[0]), int(asInt64(a[1]))))
}

func extNdStringUpTo(fr *frame, a []value) value {
	l := strArg(a[0])
	n := ndLen(fr, l, int(asInt64(a[1])))
	return mkStr(ndBytes(fr, l, n))
}

func extNdAssume(fr *frame, a []value) value {
	fr.p.assume(a[0])
	return nil
}

func extNdAssert(fr *frame, a []value) value {
	site := "?"
	if fr.caller != nil {
		site = fr.caller.site()
	}
	fr.p.assertHolds(a[0], strArg(a[1]), site)
	return nil
}

func extNdReach(fr *frame, a []value) value {
	fr.p.reach[strArg(a[0])]++
	return nil
}

func extNdLog(fr *frame, a []value) value {
	var sb strings.Builder
	for _, x := range a[0].([]value) {
		sb.WriteString(fr.display(x))
	}
	fr.p.events = append(fr.p.events, sb.String())
	return nil
}

// display renders a value for logs / fmt stubs.
func (fr *frame) display(v value) string {
	switch x := v.(type) {
	case iface:
		if x.t == nil {
			return "<nil>"
		}
		// error / Stringer
		if s, ok := fr.callStringMethod(x, "Error"); ok {
			return s
		}
		if s, ok := fr.callStringMethod(x, "String"); ok {
			return s
		}
		return fr.display(x.v)
	case string:
		return x
	case symstr:
		var sb strings.Builder
		for _, b := range x.b {
			if c, ok := b.(uint8); ok {
				sb.WriteByte(c)
			} else {
				sb.WriteString("?")
			}
		}
		return sb.String()
	case *Term:
		return "<sym>"
	case nil:
		return "<nil>"
	case []value:
		parts := make([]string, len(x))
		for i := range x {
			parts[i] = fr.display(x[i])
		}
		return "[" + strings.Join(parts, " ") + "]"
	case structure, array, tuple, *gmap:
		return toString(v)
	case *value:
		if x == nil {
			return "<nil>"
		}
		return "0xptr"
	}
	return fmt.Sprint(v)
}

func (fr *frame) callStringMethod(x iface, name string) (string, bool) {
	r, ok := fr.callStringMethodVal(x, name)
	if !ok {
		return "", false
	}
	return fr.display(r), true
}

// callStringMethodVal calls the niladic string method name of x (if any) and
// returns its result as a value (string or symstr).
func (fr *frame) callStringMethodVal(x iface, name string) (value, bool) {
	ms := fr.i.prog.MethodSets.MethodSet(x.t)
	for i := 0; i < ms.Len(); i++ {
		sel := ms.At(i)
		if sel.Obj().Name() != name {
			continue
		}
		sig, ok := sel.Type().(*types.Signature)
		if !ok || sig.Params().Len() != 0 || sig.Results().Len() != 1 {
			return nil, false
		}
		if b, ok := sig.Results().At(0).Type().Underlying().(*types.Basic); !ok || b.Kind() != types.String {
			return nil, false
		}
		fn := fr.i.prog.MethodValue(sel)
		if fn == nil {
			return nil, false
		}
		return fr.call(fr.curPos(), fn, []value{x.v}, nil), true
	}
	return nil, false
}

// displayVals renders a formatting operand as bytes, keeping symbolic string
// bytes symbolic. A symbolic scalar (integer, bool, byte) is rendered as ONE
// fresh unconstrained byte: formatting numbers is not modelled, and an opaque
// byte makes every assertion that depends on the rendering fail in the
// engine (reported as not reproducing) instead of silently passing.
func (fr *frame) displayVals(v value) []value {
	switch x := v.(type) {
	case iface:
		if x.t == nil {
			return strBytes("<nil>")
		}
		if r, ok := fr.callStringMethodVal(x, "Error"); ok {
			return fr.displayVals(r)
		}
		if r, ok := fr.callStringMethodVal(x, "String"); ok {
			return fr.displayVals(r)
		}
		if b, ok := x.t.Underlying().(*types.Slice); ok {
			if e, ok := b.Elem().Underlying().(*types.Basic); ok && e.Kind() == types.Uint8 {
				if bs, ok := x.v.([]value); ok {
					return append([]value(nil), bs...)
				}
			}
		}
		return fr.displayVals(x.v)
	case string, symstr:
		return strBytes(x)
	case *Term:
		return []value{fr.p.newVar("fmt_opaque", 8)}
	}
	return strBytes(fr.display(v))
}

func valsToStr(bs []value) value {
	for _, b := range bs {
		if _, ok := b.(uint8); !ok {
			return symstr{bs}
		}
	}
	out := make([]byte, len(bs))
	for i, b := range bs {
		out[i] = b.(uint8)
	}
	return string(out)
}

// ---------------------------------------------------------------- fmt

func (fr *frame) sprintf(format value, args []value) value {
	f, ok := format.(string)
	if !ok {
		// a format with symbolic bytes: every byte that may be '%' forks. On
		// the branch where some byte is '%' the real formatter would emit
		// %!verb(MISSING)/consume operands; this is not modelled: the result is
		// opaque there (whatever depends on it fails in the engine and is then
		// judged by the native replay). Without any '%' and without operands
		// the format is returned unchanged.
		if ss, isSym := format.(symstr); isSym {
			pct := false
			for _, b := range ss.b {
				if c, conc := b.(uint8); conc {
					pct = pct || c == '%'
					continue
				}
				if fr.p.truth(fr.p.byteEq(b, byte('%'))) {
					pct = true
				}
			}
			if !pct && len(args) == 0 {
				return format
			}
			return symstr{[]value{fr.p.newVar("fmt_opaque", 8)}}
		}
		return "<fmt>"
	}
	var out []value
	ws := func(x string) { out = append(out, strBytes(x)...) }
	ai := 0
	for i := 0; i < len(f); i++ {
		c := f[i]
		if c != '%' {
			out = append(out, c)
			continue
		}
		i++
		if i >= len(f) {
			break
		}
		// skip flags/width
		for i < len(f) && strings.IndexByte("+-# 0123456789.", f[i]) >= 0 {
			i++
		}
		if i >= len(f) {
			break
		}
		verb := f[i]
		if verb == '%' {
			out = append(out, byte('%'))
			continue
		}
		if ai >= len(args) {
			ws("%!" + string(verb) + "(MISSING)")
			continue
		}
		arg := args[ai]
		ai++
		switch verb {
		case 'T':
			if it, ok := arg.(iface); ok && it.t != nil {
				ws(it.t.String())
			} else {
				ws("<nil>")
			}
		case 'q':
			ws(strconv.Quote(fr.display(arg)))
		default:
			out = append(out, fr.displayVals(arg)...)
		}
	}
	return valsToStr(out)
}

func extFmtSprintf(fr *frame, a []value) value {
	return fr.sprintf(a[0], a[1].([]value))
}

// writeTo calls w.Write(bytes of s) on an io.Writer value and returns
// (n, err) as the Fprint family does.
func (fr *frame) writeTo(w value, s value) value {
	wi, ok := w.(iface)
	if !ok || wi.t == nil {
		fr.rtPanic("invalid memory address or nil pointer dereference")
	}
	ms := fr.i.prog.MethodSets.MethodSet(wi.t)
	for i := 0; i < ms.Len(); i++ {
		if ms.At(i).Obj().Name() == "Write" {
			fn := fr.i.prog.MethodValue(ms.At(i))
			return fr.call(fr.curPos(), fn, []value{wi.v, strBytes(s)}, nil)
		}
	}
	panic(unsupported("fmt.Fprint*: writer without Write"))
}

func extFmtFprintf(fr *frame, a []value) value {
	return fr.writeTo(a[0], fr.sprintf(a[1], a[2].([]value)))
}

func extFmtFprint(fr *frame, a []value) value {
	var out []value
	for _, x := range a[1].([]value) {
		out = append(out, fr.displayVals(x)...)
	}
	if fr.fn.Name() == "Fprintln" {
		out = append(out, byte('\n'))
	}
	return fr.writeTo(a[0], valsToStr(out))
}

func extFmtSprint(fr *frame, a []value) value {
	var out []value
	for _, x := range a[0].([]value) {
		out = append(out, fr.displayVals(x)...)
	}
	return valsToStr(out)
}

func extFmtErrorf(fr *frame, a []value) value {
	msg := fr.sprintf(a[0], a[1].([]value))
	// build *errors.errorString
	ep := fr.i.env.pkgs["errors"]
	if ep == nil {
		panic(unsupported("fmt.Errorf without errors package"))
	}
	return fr.call(fr.curPos(), ep.Func("New"), []value{msg}, nil)
}

// ---------------------------------------------------------------- bytes/strings leafs

// seqOf returns the elements of a string or []byte value without copying
// when possible.
func seqOf(v value) []value {
	switch x := v.(type) {
	case []value:
		return x
	case string, symstr:
		return strBytes(x)
	}
	panic(fmt.Sprintf("seqOf: %T", v))
}

func (p *Path) byteEq(a, b value) value {
	ac, aok := a.(uint8)
	bc, bok := b.(uint8)
	if aok && bok {
		return ac == bc
	}
	return p.fromBoolTerm(p.tt.Eq(p.toTerm(a), p.toTerm(b)))
}

// truth forks on a bool-or-term condition.
func (p *Path) truth(c value) bool {
	switch c := c.(type) {
	case bool:
		return c
	case *Term:
		return p.decide(c)
	}
	panic(fmt.Sprintf("truth: %T", c))
}

func extIndexByte(fr *frame, a []value) value {
	s := seqOf(a[0])
	for i, b := range s {
		if fr.p.truth(fr.p.byteEq(b, a[1])) {
			return i
		}
	}
	return -1
}

func extLastIndexByte(fr *frame, a []value) value {
	s := seqOf(a[0])
	for i := len(s) - 1; i >= 0; i-- {
		if fr.p.truth(fr.p.byteEq(s[i], a[1])) {
			return i
		}
	}
	return -1
}

func extCountByte(fr *frame, a []value) value {
	s := seqOf(a[0])
	n := 0
	for _, b := range s {
		if fr.p.truth(fr.p.byteEq(b, a[1])) {
			n++
		}
	}
	return n
}

func extBytesEqual(fr *frame, a []value) value {
	x, y := seqOf(a[0]), seqOf(a[1])
	if len(x) != len(y) {
		return false
	}
	var acc value = true
	for i := range x {
		acc = fr.p.andv(acc, fr.p.byteEq(x[i], y[i]))
		if acc == false {
			return false
		}
	}
	return acc
}

func extBytesCompare(fr *frame, a []value) value {
	p := fr.p
	x, y := mkStr(append([]value(nil), seqOf(a[0])...)), mkStr(append([]value(nil), seqOf(a[1])...))
	if p.truth(p.eqv(x, y)) {
		return 0
	}
	if p.truth(p.strLess(x, y)) {
		return -1
	}
	return 1
}

func (p *Path) matchAt(s []value, i int, sub []value) value {
	var acc value = true
	for j := range sub {
		acc = p.andv(acc, p.byteEq(s[i+j], sub[j]))
		if acc == false {
			return false
		}
	}
	return acc
}

func extIndexString(fr *frame, a []value) value {
	s, sub := seqOf(a[0]), seqOf(a[1])
	for i := 0; i+len(sub) <= len(s); i++ {
		if fr.p.truth(fr.p.matchAt(s, i, sub)) {
			return i
		}
	}
	return -1
}

func extLastIndexString(fr *frame, a []value) value {
	s, sub := seqOf(a[0]), seqOf(a[1])
	for i := len(s) - len(sub); i >= 0; i-- {
		if fr.p.truth(fr.p.matchAt(s, i, sub)) {
			return i
		}
	}
	return -1
}

func extMakeNoZero(fr *frame, a []value) value {
	n := int(asInt64(a[0]))
	c := roundupsize(n)
	s := make([]value, c)
	for i := range s {
		s[i] = uint8(0)
	}
	return s[:n]
}

func extStringsTrim(fr *frame, a []value) value {
	name := fr.fn.Name()
	s := a[0]
	cut, ok := a[1].(string)
	if !ok {
		panic(unsupported("strings.Trim with symbolic cutset"))
	}
	for i := 0; i < len(cut); i++ {
		if cut[i] >= 0x80 {
			panic(unsupported("strings.Trim with non-ASCII cutset"))
		}
	}
	p := fr.p
	inCut := func(b value) value {
		var acc value = false
		for i := 0; i < len(cut); i++ {
			acc = p.orv(acc, p.byteEq(b, cut[i]))
		}
		return acc
	}
	lo, hi := 0, strLen(s)
	if name == "Trim" || name == "TrimLeft" {
		for lo < hi && p.truth(inCut(strAt(s, lo))) {
			lo++
		}
	}
	if name == "Trim" || name == "TrimRight" {
		for hi > lo && p.truth(inCut(strAt(s, hi-1))) {
			hi--
		}
	}
	return strSlice(s, lo, hi)
}

// extStringsTrimSpace: ASCII white space is trimmed byte-wise (one fork per
// boundary byte instead of the real code's table lookup per value); the
// two-byte spaces U+0085 and U+00A0 (C2 85, C2 A0) are handled; a boundary
// byte that may start a three-byte space (E1, E2, E3) is declined.
func extStringsTrimSpace(fr *frame, a []value) value {
	s := a[0]
	if c, ok := s.(string); ok {
		return strings.TrimSpace(c)
	}
	p := fr.p
	tt := p.tt
	isASCIISpace := func(b value) value {
		t := p.toTerm(b)
		in := tt.Or(tt.And(tt.Cmp(OpUle, tt.BV(9, 8), t), tt.Cmp(OpUle, t, tt.BV(13, 8))), tt.Eq(t, tt.BV(' ', 8)))
		return p.fromBoolTerm(in)
	}
	isLead3 := func(b value) value {
		t := p.toTerm(b)
		return p.fromBoolTerm(tt.And(tt.Cmp(OpUle, tt.BV(0xe1, 8), t), tt.Cmp(OpUle, t, tt.BV(0xe3, 8))))
	}
	eq := func(b value, c byte) value { return p.byteEq(b, c) }
	lo, hi := 0, strLen(s)
	for lo < hi {
		b := strAt(s, lo)
		if p.truth(isASCIISpace(b)) {
			lo++
			continue
		}
		if p.truth(isLead3(b)) {
			panic(unsupported("strings.TrimSpace: possible three-byte space at the boundary"))
		}
		if lo+1 < hi && p.truth(eq(b, 0xc2)) && p.truth(p.orv(eq(strAt(s, lo+1), 0x85), eq(strAt(s, lo+1), 0xa0))) {
			lo += 2
			continue
		}
		break
	}
	for hi > lo {
		b := strAt(s, hi-1)
		if p.truth(isASCIISpace(b)) {
			hi--
			continue
		}
		// a trailing continuation byte: C2 85 / C2 A0, or the tail of a
		// three-byte space
		if hi-2 >= lo && p.truth(p.orv(eq(b, 0x85), eq(b, 0xa0))) && p.truth(eq(strAt(s, hi-2), 0xc2)) {
			hi -= 2
			continue
		}
		if hi-3 >= lo && p.truth(isLead3(strAt(s, hi-3))) {
			t := p.toTerm(b)
			if p.truth(p.fromBoolTerm(tt.Cmp(OpUle, tt.BV(0x80, 8), t))) {
				panic(unsupported("strings.TrimSpace: possible three-byte space at the boundary"))
			}
		}
		break
	}
	return strSlice(s, lo, hi)
}

// extStringsFields: strings.Fields over possibly symbolic bytes (the real one
// indexes a 256-entry table with every byte). Separators are the ASCII
// spaces and the two-byte spaces U+0085 / U+00A0; a byte that may start a
// three-byte space (E1, E2, E3) is declined.
func extStringsFields(fr *frame, a []value) value {
	s := a[0]
	p := fr.p
	tt := p.tt
	isASCIISpace := func(b value) value {
		t := p.toTerm(b)
		in := tt.Or(tt.And(tt.Cmp(OpUle, tt.BV(9, 8), t), tt.Cmp(OpUle, t, tt.BV(13, 8))), tt.Eq(t, tt.BV(' ', 8)))
		return p.fromBoolTerm(in)
	}
	isLead3 := func(b value) value {
		t := p.toTerm(b)
		return p.fromBoolTerm(tt.And(tt.Cmp(OpUle, tt.BV(0xe1, 8), t), tt.Cmp(OpUle, t, tt.BV(0xe3, 8))))
	}
	eq := func(b value, c byte) value { return p.byteEq(b, c) }
	out := []value{}
	n := strLen(s)
	start := -1
	flush := func(end int) {
		if start >= 0 {
			out = append(out, strSlice(s, start, end))
			start = -1
		}
	}
	for i := 0; i < n; {
		b := strAt(s, i)
		if p.truth(isASCIISpace(b)) {
			flush(i)
			i++
			continue
		}
		if p.truth(isLead3(b)) {
			panic(unsupported("strings.Fields: possible three-byte space"))
		}
		if i+1 < n && p.truth(eq(b, 0xc2)) && p.truth(p.orv(eq(strAt(s, i+1), 0x85), eq(strAt(s, i+1), 0xa0))) {
			flush(i)
			i += 2
			continue
		}
		if start < 0 {
			start = i
		}
		i++
	}
	flush(n)
	return out
}

func extBuilderString(fr *frame, a []value) value {
	b := a[0].(*value)
	st := (*b).(structure)
	buf := st[1].([]value)
	nb := make([]value, len(buf))
	copy(nb, buf)
	return mkStr(nb)
}

func mapASCII(fr *frame, s value, lower bool) value {
	p := fr.p
	b := strBytes(s)
	for i, x := range b {
		switch c := x.(type) {
		case uint8:
			if c >= 0x80 {
				panic(unsupported("ToLower/ToUpper on non-ASCII"))
			}
			if lower && c >= 'A' && c <= 'Z' {
				b[i] = c + 32
			}
			if !lower && c >= 'a' && c <= 'z' {
				b[i] = c - 32
			}
		case *Term:
			tt := p.tt
			if !p.decide(tt.Cmp(OpUlt, c, tt.BV(0x80, 8))) {
				panic(unsupported("ToLower/ToUpper on non-ASCII"))
			}
			var isC *Term
			var nv *Term
			if lower {
				isC = tt.And(tt.Cmp(OpUle, tt.BV('A', 8), c), tt.Cmp(OpUle, c, tt.BV('Z', 8)))
				nv = tt.BvBin(OpBvAdd, c, tt.BV(32, 8))
			} else {
				isC = tt.And(tt.Cmp(OpUle, tt.BV('a', 8), c), tt.Cmp(OpUle, c, tt.BV('z', 8)))
				nv = tt.BvBin(OpBvSub, c, tt.BV(32, 8))
			}
			b[i] = fromTerm(tt.Ite(isC, nv, c), types.Typ[types.Uint8])
		}
	}
	return mkStr(b)
}

func extToLower(fr *frame, a []value) value { return mapASCII(fr, a[0], true) }
func extToUpper(fr *frame, a []value) value { return mapASCII(fr, a[0], false) }

func extItoa(fr *frame, a []value) value {
	if _, ok := a[0].(*Term); ok {
		n := fr.p.asIntC(a[0])
		return strconv.Itoa(int(n))
	}
	return strconv.Itoa(int(asInt64(a[0])))
}

func extAtoi(fr *frame, a []value) value {
	s, ok := a[0].(string)
	if !ok {
		panic(unsupported("strconv.Atoi on symbolic string"))
	}
	n, err := strconv.Atoi(s)
	if err != nil {
		ep := fr.i.env.pkgs["errors"]
		e := fr.call(fr.curPos(), ep.Func("New"), []value{err.Error()}, nil)
		return tuple{n, e}
	}
	return tuple{n, iface{}}
}

func extQuote(fr *frame, a []value) value {
	s, ok := a[0].(string)
	if !ok {
		return "\"<sym>\""
	}
	return strconv.Quote(s)
}

func (fr *frame) curPos() (pos tokenPos) {
	if fr.curInstr != nil {
		return fr.curInstr.Pos()
	}
	return 0
}

func extReflectliteTypeOf(fr *frame, a []value) value {
	it := a[0].(iface)
	rl := fr.i.env.pkgs["internal/reflectlite"]
	return iface{t: rl.Type("rtype").Object().Type(), v: rtype{it.t}}
}
