package main

import (
	"crypto/sha1"
	"encoding/json"
	"flag"
	"fmt"
	"go/token"
	"os"
	"os/exec"
	"path/filepath"
	"runtime"
	"runtime/pprof"
	"sort"
	"strconv"
	"strings"
	"time"

	"golang.org/x/tools/go/ssa"
)

type tokenPos = token.Pos

type Spec struct {
	Property    string        `json:"property"`
	Files       []HarnessFile `json:"files"`
	ExtraPkgs   []string      `json:"extra_pkgs"`
	Harnesses   []HarnessCfg  `json:"harnesses"`
	Assumptions []string      `json:"assumptions"`
	Outside     []string      `json:"outside"`
	TrustedBase []string      `json:"trusted_base"`
	QuickBudget int           `json:"quick_budget_s"`
	ThorBudget  int           `json:"thorough_budget_s"`
}

type KnownFinding struct {
	ID          string `json:"id"`
	Property    string `json:"property"`
	Harness     string `json:"harness"`
	Label       string `json:"label"`
	Description string `json:"description"`
	Witness     string `json:"witness"`
	Status      string `json:"status"` // open | fixed
	Commit      string `json:"commit,omitempty"`
}

type replayOut struct {
	Harness string         `json:"harness"`
	Params  map[string]int `json:"params"`
	ND      []ndVal        `json:"nd"`
	Label   string         `json:"label"`
	Site    string         `json:"site"`
	Msg     string         `json:"msg"`
	Events  []string       `json:"events,omitempty"`
	Sched   []int          `json:"schedule,omitempty"`
	Pkg     string         `json:"pkg"`
	Prop    string         `json:"property"`
	Render  string         `json:"rendered"`
}

func main() {
	if len(os.Args) < 2 {
		fmt.Fprintln(os.Stderr, "usage: gosym check|replay ...")
		os.Exit(2)
	}
	switch os.Args[1] {
	case "check":
		os.Exit(cmdCheck(os.Args[2:]))
	case "replay":
		os.Exit(cmdReplay(os.Args[2:]))
	case "selftest":
		os.Exit(cmdSelftest())
	default:
		fmt.Fprintln(os.Stderr, "unknown command", os.Args[1])
		os.Exit(2)
	}
}

func loadSpec(dir string) (*Spec, error) {
	data, err := os.ReadFile(filepath.Join(dir, "spec.json"))
	if err != nil {
		return nil, err
	}
	var s Spec
	if err := json.Unmarshal(data, &s); err != nil {
		return nil, fmt.Errorf("spec.json: %v", err)
	}
	return &s, nil
}

func loadKnown() []KnownFinding {
	data, err := os.ReadFile(filepath.Join(verifDir(), "known_findings.json"))
	if err != nil {
		return nil
	}
	var k []KnownFinding
	if err := json.Unmarshal(data, &k); err != nil {
		fmt.Fprintln(os.Stderr, "known_findings.json:", err)
		os.Exit(2)
	}
	return k
}

func mergeParams(ms ...map[string]int) map[string]int {
	out := map[string]int{}
	for _, m := range ms {
		for k, v := range m {
			out[k] = v
		}
	}
	return out
}

func cmdCheck(args []string) int {
	fs := flag.NewFlagSet("check", flag.ExitOnError)
	specDir := fs.String("spec", "", "spec directory")
	tier := fs.String("tier", "quick", "quick|thorough")
	workers := fs.Int("workers", 0, "number of workers")
	only := fs.String("only", "", "run only this harness func")
	noReplay := fs.Bool("noreplay", false, "skip native replay (debug)")
	noEvidence := fs.Bool("noevidence", false, "do not write evidence/<property>.json (model validation specs)")
	budget := fs.Int("budget", 0, "time budget in seconds (overrides spec)")
	cpuprof := fs.String("cpuprofile", "", "write cpu profile")
	fs.Parse(args)
	if *cpuprof != "" {
		f, _ := os.Create(*cpuprof)
		pprof.StartCPUProfile(f)
		defer pprof.StopCPUProfile()
	}
	if t := os.Getenv("VERIF_TIER"); t != "" && *tier == "" {
		*tier = t
	}
	seed := 0
	if s := os.Getenv("VERIF_SEED"); s != "" {
		seed, _ = strconv.Atoi(s)
	}
	start := time.Now()
	*specDir, _ = filepath.Abs(*specDir)
	spec, err := loadSpec(*specDir)
	if err != nil {
		fmt.Fprintln(os.Stderr, err)
		return 2
	}
	nw := *workers
	if nw == 0 {
		nw = runtime.NumCPU()
		if nw > 16 {
			nw = 16
		}
	}
	env, err := LoadEnv(*specDir, spec.Files, spec.ExtraPkgs)
	if err != nil {
		fmt.Fprintln(os.Stderr, "load:", err)
		fmt.Println("INCONCLUSIVE: loading /repo with the harness overlay failed:", err)
		return 2
	}
	loadS := time.Since(start).Seconds()
	bud := spec.QuickBudget
	if *tier == "thorough" {
		bud = spec.ThorBudget
	}
	if *budget > 0 {
		bud = *budget
	}
	if bud == 0 {
		bud = 600
	}
	deadline := start.Add(time.Duration(bud) * time.Second)

	if *only == "" {
		os.RemoveAll(filepath.Join(verifDir(), "replays", spec.Property))
	}
	known := loadKnown()
	var all []*Results
	inconclusive := []string{}
	exit := 0
	var violLines, kfLines []string
	replays := 0
	nativeConc, interpOnly := 0, 0
	type hinfo struct {
		cfg    HarnessCfg
		params map[string]int
	}
	infos := map[string]hinfo{}
	for _, h := range spec.Harnesses {
		if *only != "" && h.Func != *only {
			continue
		}
		tp := h.Quick
		if *tier == "thorough" {
			tp = mergeParams(h.Quick, h.Thorough)
		}
		params := mergeParams(h.Params, tp)
		infos[h.Func] = hinfo{h, params}
		pkgPath := modPath + "/" + h.Pkg
		sp := env.pkgs[pkgPath]
		if sp == nil {
			fmt.Fprintln(os.Stderr, "no package", pkgPath)
			return 2
		}
		fn := sp.Func(h.Func)
		if fn == nil {
			fmt.Fprintln(os.Stderr, "no harness function", h.Func, "in", pkgPath)
			return 2
		}
		hs := time.Now()
		res := Explore(env, fn, h, params, nw, deadline)
		all = append(all, res)
		fmt.Fprintf(os.Stderr, "[%s] %s: paths=%d infeasible=%d obligations=%d queries(sat=%d unsat=%d unknown=%d) solver=%.1fs wall=%.1fs violations=%d\n",
			spec.Property, h.Func, res.Paths, res.Infeasible, res.Obligations, res.Solver.Sat, res.Solver.Unsat, res.Solver.Unknown,
			res.Solver.Time.Seconds(), time.Since(hs).Seconds(), len(res.ViolCount))
		for why, n := range res.Inconclusive {
			inconclusive = append(inconclusive, fmt.Sprintf("%s: %s (x%d)", h.Func, why, n))
		}
		for _, l := range h.Reach {
			if res.Reach[l] == 0 {
				inconclusive = append(inconclusive, fmt.Sprintf("%s: reach label %q never hit (vacuity guard)", h.Func, l))
			}
		}
		// violations
		labels := make([]string, 0, len(res.Violations))
		for l := range res.Violations {
			labels = append(labels, l)
		}
		sort.Strings(labels)
		for _, l := range labels {
			vs := res.Violations[l]
			reproduced := false
			var rpath string
			for _, v := range vs {
				rp := writeReplay(spec, h, params, v)
				if rpath == "" {
					rpath = rp
				}
				if *noReplay {
					reproduced = true
					break
				}
				ok, out := nativeReplay(env, spec, h, rp, v)
				replays++
				if ok {
					reproduced = true
					rpath = rp
					if v.Conc {
						nativeConc++
					}
					break
				}
				if v.Conc && !strings.HasPrefix(l, "race:") {
					// schedule-dependent: the native scheduler could not be driven
					// into the recorded interleaving within the stress budget; the
					// counterexample stands on the interpreter's deterministic
					// re-execution of the recorded schedule (see DESIGN §4.4)
					if interpReplay(env, h, params, v) {
						reproduced = true
						rpath = rp
						interpOnly++
						fmt.Fprintf(os.Stderr, "note: %s/%s reproduced by interpreter schedule replay only (native stress run did not hit the interleaving)\n", h.Func, l)
						break
					}
				}
				fmt.Fprintf(os.Stderr, "replay of %s/%s did not reproduce:\n%s\n", h.Func, l, tail(out, 30))
			}
			if !reproduced {
				inconclusive = append(inconclusive, fmt.Sprintf("%s: counterexample for %q did not reproduce natively (engine/model mismatch)", h.Func, l))
				fmt.Printf("UNCONFIRMED property=%s harness=%s label=%s replay=%s\n", spec.Property, h.Func, l, rpath)
				continue
			}
			kf := matchKnown(known, spec.Property, h.Func, l)
			if kf != nil {
				kfLines = append(kfLines, fmt.Sprintf("KNOWN-FINDING: property=%s %s [%s %s] %s (x%d paths) replay=%s", spec.Property, kf.ID, h.Func, l, kf.Description, res.ViolCount[l], rpath))
			} else {
				violLines = append(violLines, fmt.Sprintf("VIOLATION property=%s replay=%s harness=%s label=%s paths=%d msg=%q", spec.Property, rpath, h.Func, l, res.ViolCount[l], vs[0].Msg))
				exit = 1
			}
		}
	}
	for _, l := range kfLines {
		fmt.Println(l)
	}
	for _, l := range violLines {
		fmt.Println(l)
	}
	if len(inconclusive) > 0 {
		sort.Strings(inconclusive)
		for _, l := range inconclusive {
			fmt.Println("INCONCLUSIVE:", l)
		}
		if exit == 0 {
			exit = 2
		}
	}
	_ = nativeConc
	_ = interpOnly
	if !*noEvidence {
		writeEvidence(spec, *tier, seed, all, known, inconclusive, len(violLines), len(kfLines), replays, time.Since(start).Seconds(), loadS, nw, func(h string) map[string]int { return infos[h].params })
	}
	if exit == 0 {
		fmt.Printf("OK property=%s tier=%s\n", spec.Property, *tier)
	}
	return exit
}

func tail(s string, n int) string {
	lines := strings.Split(s, "\n")
	if len(lines) > n {
		lines = lines[len(lines)-n:]
	}
	return strings.Join(lines, "\n")
}

func matchKnown(known []KnownFinding, prop, harness, label string) *KnownFinding {
	for i := range known {
		k := &known[i]
		if k.Status != "open" || k.Property != prop {
			continue
		}
		if k.Label == label && (k.Harness == "" || k.Harness == harness) {
			return k
		}
	}
	return nil
}

func renderViolation(v Violation) string {
	var sb strings.Builder
	fmt.Fprintf(&sb, "%s: %s at %s;", v.Label, v.Msg, v.Site)
	// group byte runs by label
	i := 0
	for i < len(v.ND) {
		r := v.ND[i]
		if r.Kind == "byte" {
			j := i
			var bs []byte
			for j < len(v.ND) && v.ND[j].Kind == "byte" && v.ND[j].Label == r.Label {
				bs = append(bs, byte(v.ND[j].Value))
				j++
			}
			fmt.Fprintf(&sb, " %s=%q", r.Label, string(bs))
			i = j
			continue
		}
		fmt.Fprintf(&sb, " %s(%s)=%d", r.Label, r.Kind, r.Value)
		i++
	}
	return sb.String()
}

func writeReplay(spec *Spec, h HarnessCfg, params map[string]int, v Violation) string {
	dir := filepath.Join(verifDir(), "replays", spec.Property)
	os.MkdirAll(dir, 0o755)
	hsh := sha1.Sum([]byte(h.Func + "|" + v.Label + "|" + fmt.Sprint(v.ND)))
	name := fmt.Sprintf("%s-%x.json", h.Func, hsh[:5])
	ro := replayOut{Harness: h.Func, Params: params, ND: v.ND, Label: v.Label, Site: v.Site, Msg: v.Msg,
		Events: v.Events, Sched: v.Schedule, Pkg: h.Pkg, Prop: spec.Property, Render: renderViolation(v)}
	if ro.ND == nil {
		ro.ND = []ndVal{}
	}
	data, _ := json.MarshalIndent(ro, "", " ")
	path := filepath.Join(dir, name)
	os.WriteFile(path, data, 0o644)
	return path
}

// nativeReplay compiles the harness natively against /repo's working tree
// (through -overlay; nothing is written into /repo) and feeds it the recorded
// values.
func nativeReplay(env *Env, spec *Spec, h HarnessCfg, replayPath string, v Violation) (bool, string) {
	stress := 0
	if v.Conc {
		stress = 20000
	}
	race := strings.HasPrefix(v.Label, "race:")
	if race {
		// confirmed by the Go race detector on a native stress run
		stress = 300
	}
	out, err := runNative(env.ovFiles, spec, h.Pkg, replayPath, 120, stress, race)
	_ = err
	return judgeReplay(out, v.Label, v.Site), out
}

// interpReplay re-executes the recorded decision vector (inputs, branches
// and schedule) in a fresh interpreter and checks that the same violation is
// reached again.
func interpReplay(env *Env, h HarnessCfg, params map[string]int, v Violation) bool {
	pkgPath := modPath + "/" + h.Pkg
	fn := env.pkgs[pkgPath].Func(h.Func)
	res := NewResults(h.Func)
	w := &Worker{id: 0, tt: NewTermTable(), s: NewSolver(), res: res, env: env, sharedGlobals: map[*ssa.Global]*value{}}
	defer w.s.Close()
	w.runPath(fn, h, params, v.Trace)
	return res.ViolCount[v.Label] > 0
}

func runNative(ovFiles map[string]string, spec *Spec, pkg string, replayPath string, timeoutS int, stress int, race bool) (string, error) {
	work, err := os.MkdirTemp(filepath.Join(verifDir(), ".work"), "replay")
	if err != nil {
		os.MkdirAll(filepath.Join(verifDir(), ".work"), 0o755)
		work, err = os.MkdirTemp(filepath.Join(verifDir(), ".work"), "replay")
		if err != nil {
			return "", err
		}
	}
	defer os.RemoveAll(work)
	// generated test file listing every harness of this package
	var names []string
	for _, hc := range spec.Harnesses {
		if hc.Pkg == pkg {
			names = append(names, hc.Func)
		}
	}
	pkgName := packageNameOf(ovFiles, pkg)
	var sb strings.Builder
	fmt.Fprintf(&sb, "//go:build verif\n\npackage %s\n\nimport (\n\t\"testing\"\n\n\t\"%s\"\n)\n\nfunc TestZZReplay(t *testing.T) {\n\tnd.RunReplay(t, map[string]func(){\n", pkgName, ndPkgPath)
	for _, n := range names {
		fmt.Fprintf(&sb, "\t\t%q: %s,\n", n, n)
	}
	sb.WriteString("\t})\n}\n")
	testFile := filepath.Join(work, "zz_verif_replay_test.go")
	os.WriteFile(testFile, []byte(sb.String()), 0o644)
	repl := map[string]string{}
	for virt, real := range ovFiles {
		repl[virt] = real
	}
	repl[filepath.Join(repoDir, pkg, "zz_verif_replay_test.go")] = testFile
	ovData, _ := json.Marshal(map[string]interface{}{"Replace": repl})
	ovPath := filepath.Join(work, "overlay.json")
	os.WriteFile(ovPath, ovData, 0o644)
	bin := filepath.Join(work, "replay.test")
	env := append(os.Environ(), "GOFLAGS=-mod=mod", "GOPROXY=off", "GOSUMDB=off", "GOTOOLCHAIN=local", "ZZ_REPLAY="+replayPath, fmt.Sprintf("ZZ_STRESS=%d", stress))
	buildArgs := []string{"300", "go", "test", "-c", "-o", bin, "-vet=off", "-tags", "verif appengine", "-overlay", ovPath}
	if race {
		buildArgs = append(buildArgs, "-race")
	}
	build := exec.Command("timeout", append(buildArgs, "./"+pkg)...)
	build.Dir = repoDir
	build.Env = env
	if out, err := build.CombinedOutput(); err != nil {
		return "BUILD FAILED: " + string(out), err
	}
	cmd := exec.Command("timeout", strconv.Itoa(timeoutS+10), bin, "-test.run", "^TestZZReplay$", "-test.v", "-test.timeout", fmt.Sprintf("%ds", timeoutS))
	cmd.Dir = work
	cmd.Env = env
	out, err := cmd.CombinedOutput()
	return string(out), err
}

func packageNameOf(ovFiles map[string]string, pkg string) string {
	for virt, real := range ovFiles {
		if filepath.Dir(virt) == filepath.Join(repoDir, pkg) {
			data, _ := os.ReadFile(real)
			for _, l := range strings.Split(string(data), "\n") {
				l = strings.TrimSpace(l)
				if strings.HasPrefix(l, "package ") {
					return strings.TrimSpace(strings.TrimPrefix(l, "package "))
				}
			}
		}
	}
	return filepath.Base(pkg)
}

func judgeReplay(out, label, site string) bool {
	switch {
	case strings.HasPrefix(label, "race:"):
		return strings.Contains(out, "WARNING: DATA RACE")
	case strings.HasPrefix(label, "panic:"):
		if !(strings.Contains(out, "REPLAY-PANIC") || strings.Contains(out, "\npanic:")) {
			return false
		}
		return true
	case strings.HasPrefix(label, "fatal:"):
		return strings.Contains(out, "fatal error:") || strings.Contains(out, "test timed out") || strings.Contains(out, "all goroutines are asleep")
	default:
		if strings.Contains(out, "REPLAY-DESYNC") {
			return false
		}
		for _, l := range strings.Split(out, "\n") {
			if strings.TrimSpace(l) == "REPLAY-FAIL: "+label {
				return true
			}
		}
	}
	return false
}

func cmdReplay(args []string) int {
	fs := flag.NewFlagSet("replay", flag.ExitOnError)
	specDir := fs.String("spec", "", "spec directory")
	file := fs.String("file", "", "replay file")
	fs.Parse(args)
	*specDir, _ = filepath.Abs(*specDir)
	*file, _ = filepath.Abs(*file)
	spec, err := loadSpec(*specDir)
	if err != nil {
		fmt.Fprintln(os.Stderr, err)
		return 2
	}
	data, err := os.ReadFile(*file)
	if err != nil {
		fmt.Fprintln(os.Stderr, err)
		return 2
	}
	var ro replayOut
	if err := json.Unmarshal(data, &ro); err != nil {
		fmt.Fprintln(os.Stderr, err)
		return 2
	}
	ov := map[string]string{}
	ov[filepath.Join(repoDir, "zzverif", "nd", "nd.go")] = filepath.Join(verifDir(), "zz", "nd", "nd.go")
	for _, hf := range spec.Files {
		ov[filepath.Join(repoDir, hf.Pkg, "zz_verif_"+filepath.Base(hf.Src))] = filepath.Join(*specDir, hf.Src)
	}
	stress := 0
	if len(ro.Sched) > 0 {
		stress = 20000
	}
	race := strings.HasPrefix(ro.Label, "race:")
	if race {
		stress = 300
	}
	out, _ := runNative(ov, spec, ro.Pkg, *file, 120, stress, race)
	fmt.Println(tail(out, 60))
	if judgeReplay(out, ro.Label, ro.Site) {
		fmt.Printf("VIOLATION property=%s replay=%s\n", spec.Property, *file)
		return 1
	}
	fmt.Println("replay: violation not reproduced")
	return 0
}

// ---------------------------------------------------------------- evidence

func writeEvidence(spec *Spec, tier string, seed int, all []*Results, known []KnownFinding, inconclusive []string,
	nviol, nkf, replays int, wall, loadS float64, nw int, paramsOf func(string) map[string]int) {
	states, transitions := 0, 0
	var samples []interface{}
	funcs := map[string]int{}
	stubs := map[string]bool{}
	reach := map[string]int{}
	queries := map[string]int{}
	choice := map[string]int{}
	bounds := map[string]interface{}{}
	var solverS float64
	obligations := 0
	perH := []interface{}{}
	exhaustive := len(inconclusive) == 0
	for _, r := range all {
		states += r.Paths
		transitions += r.Solver.Sat + r.Solver.Unsat + r.Solver.Unknown
		for _, n := range r.Choices {
			transitions += n
		}
		obligations += r.Obligations
		for _, s := range r.Samples {
			samples = append(samples, s)
		}
		for k, v := range r.Funcs {
			funcs[k] += v
		}
		for k := range r.Stubs {
			stubs[k] = true
		}
		for k, v := range r.Reach {
			reach[k] += v
		}
		queries["sat"] += r.Solver.Sat
		queries["unsat"] += r.Solver.Unsat
		queries["unknown"] += r.Solver.Unknown
		for k, v := range r.Choices {
			name := map[byte]string{'b': "branch", 'c': "concretising_choice", 's': "schedule", 'v': "value_concretisation"}[k]
			choice[name] += v
		}
		solverS += r.Solver.Time.Seconds()
		bounds[r.Harness] = paramsOf(r.Harness)
		vl := map[string]int{}
		for k, v := range r.ViolCount {
			vl[k] = v
		}
		perH = append(perH, map[string]interface{}{
			"harness": r.Harness, "paths": r.Paths, "infeasible_prefixes": r.Infeasible, "assert_obligations": r.Obligations,
			"queries": map[string]int{"sat": r.Solver.Sat, "unsat": r.Solver.Unsat, "unknown": r.Solver.Unknown},
			"solver_s": round2(r.Solver.Time.Seconds()), "ssa_steps": r.Steps, "max_decision_depth": r.MaxDepth,
			"violating_paths_by_label": vl, "goroutines_max": r.Goroutines, "preemptions_max": r.MaxPreempt,
			"truncated": r.Truncated,
		})
	}
	if states == 0 {
		states = 0
	}
	// restrict functions_encoded to goatcore + notable deps
	fe := map[string]int{}
	for k, v := range funcs {
		if strings.Contains(k, "goatcms/goatcore") && !strings.Contains(k, "zzverif") || strings.Contains(k, "jsonparser") {
			fe[k] = v
		}
	}
	otherFns := len(funcs) - len(fe)
	if len(samples) == 0 {
		samples = append(samples, "no sampled path (no nondeterministic input drawn)")
	}
	var kfs []string
	for _, k := range known {
		if k.Property == spec.Property {
			kfs = append(kfs, fmt.Sprintf("%s [%s] %s", k.ID, k.Status, k.Description))
		}
	}
	ev := map[string]interface{}{
		"property_id": spec.Property,
		"tier":        tier,
		"seed":        seed,
		"level":       "model_checking",
		"coverage": map[string]interface{}{
			"states":                        states,
			"transitions":                   transitions,
			"traces_validated_against_impl": replays,
			"samples":                       samples,
			"exhaustive":                    exhaustive,
			"explanation":                   "states = completed symbolic paths (each stands for every input satisfying its path condition); transitions = SMT queries discharged (branch feasibility + assertion negations) plus explorer choice points taken (concretising choices and scheduling decisions, listed separately under choice_points); traces_validated = counterexamples replayed against the natively compiled code",
			"bounds":                        bounds,
			"functions_encoded":             fe,
			"other_functions_executed":      otherFns,
			"queries":                       queries,
			"solver_s":                      round2(solverS),
			"solver":                        solverBin + " (-in, incremental)",
			"assert_obligations":            obligations,
			"choice_points":                 choice,
			"reach_labels":                  reach,
			"stubs_used":                    sortedStrs(stubs),
			"harnesses":                     perH,
			"inconclusive":                  inconclusive,
			"known_findings":                kfs,
			"known_finding_lines":           nkf,
			"outside_claim":                 spec.Outside,
			"trusted_base":                  spec.TrustedBase,
			"workers":                       nw,
			"load_s":                        round2(loadS),
		},
		"assumptions": spec.Assumptions,
		"wall_s":      round2(wall),
		"violations":  nviol,
	}
	if ev["assumptions"] == nil {
		ev["assumptions"] = []string{}
	}
	cov := ev["coverage"].(map[string]interface{})
	if spec.Outside == nil {
		cov["outside_claim"] = []string{}
	}
	if spec.TrustedBase == nil {
		cov["trusted_base"] = []string{}
	}
	if inconclusive == nil {
		cov["inconclusive"] = []string{}
	}
	if kfs == nil {
		cov["known_findings"] = []string{}
	}
	dir := filepath.Join(verifDir(), "evidence")
	os.MkdirAll(dir, 0o755)
	data, _ := json.MarshalIndent(ev, "", " ")
	os.WriteFile(filepath.Join(dir, spec.Property+".json"), data, 0o644)
}

func round2(f float64) float64 {
	return float64(int(f*100+0.5)) / 100
}

var _ = ssa.InstantiateGenerics

// cmdSelftest: sanity checks of the term layer against the solver (each
// folding rule is compared with z3's verdict on random constants).
func cmdSelftest() int {
	tt := NewTermTable()
	s := NewSolver()
	defer s.Close()
	s.BeginPath()
	x := tt.Var("x", 8)
	y := tt.Var("y", 8)
	bad := 0
	check := func(name string, t *Term, want SatResult) {
		if r := s.Check(t); r != want {
			fmt.Printf("selftest %s: got %v want %v\n", name, r, want)
			bad++
		}
	}
	check("sat", tt.Eq(x, tt.BV(7, 8)), Sat)
	check("unsat", tt.And(tt.Eq(x, tt.BV(7, 8)), tt.Eq(x, tt.BV(8, 8))), Unsat)
	check("ult", tt.And(tt.Cmp(OpUlt, x, y), tt.Cmp(OpUlt, y, x)), Unsat)
	check("zext", tt.Not(tt.Eq(tt.ZExt(x, 32), tt.BvBin(OpBvAnd, tt.ZExt(x, 32), tt.BV(0xff, 32)))), Unsat)
	check("sext", tt.And(tt.Cmp(OpSlt, x, tt.BV(0, 8)), tt.Cmp(OpSle, tt.BV(0, 32), tt.SExt(x, 32))), Unsat)
	// constant folding vs solver on all binary ops
	ops := []Op{OpBvAdd, OpBvSub, OpBvMul, OpBvUDiv, OpBvSDiv, OpBvURem, OpBvSRem, OpBvAnd, OpBvOr, OpBvXor, OpBvShl, OpBvLShr, OpBvAShr}
	vals := []uint64{0, 1, 2, 7, 0x7f, 0x80, 0x81, 0xfe, 0xff}
	for _, op := range ops {
		for _, a := range vals {
			for _, b := range vals {
				folded := tt.BvBin(op, tt.BV(a, 8), tt.BV(b, 8))
				symb := tt.mk(op, 8, x, y, nil, 0, "")
				q := tt.And(tt.And(tt.Eq(x, tt.BV(a, 8)), tt.Eq(y, tt.BV(b, 8))), tt.Not(tt.Eq(symb, folded)))
				if r := s.Check(q); r != Unsat {
					fmt.Printf("selftest fold %s %d %d: folded=%d solver disagrees (%v)\n", opNames[op], a, b, folded.k, r)
					bad++
				}
			}
		}
	}
	s.EndPath()
	if bad > 0 {
		return 1
	}
	fmt.Println("selftest ok")
	return 0
}
