package main

// Term layer: hash-consed SMT terms over Bool and fixed-width bit-vectors,
// with eager constant folding and light simplification. One TermTable per
// worker (no locking). Terms are printed as SMT-LIB2 by solver.go.

import (
	"fmt"
	"strings"
)

type Op uint8

const (
	OpConst Op = iota // w==0: bool const (k=0/1); else BV const k
	OpVar
	OpNot    // bool
	OpAnd    // bool
	OpOr     // bool
	OpEq     // any sort -> bool
	OpIte    // a=cond, b, c
	OpBvAdd
	OpBvSub
	OpBvMul
	OpBvUDiv
	OpBvSDiv
	OpBvURem
	OpBvSRem
	OpBvAnd
	OpBvOr
	OpBvXor
	OpBvNot
	OpBvNeg
	OpBvShl
	OpBvLShr
	OpBvAShr
	OpUlt
	OpUle
	OpSlt
	OpSle
	OpZExt    // k = new width
	OpSExt    // k = new width
	OpExtract // k = hi<<8 | lo
	OpConcat  // a high, b low
)

var opNames = map[Op]string{
	OpNot: "not", OpAnd: "and", OpOr: "or", OpEq: "=", OpIte: "ite",
	OpBvAdd: "bvadd", OpBvSub: "bvsub", OpBvMul: "bvmul", OpBvUDiv: "bvudiv", OpBvSDiv: "bvsdiv",
	OpBvURem: "bvurem", OpBvSRem: "bvsrem", OpBvAnd: "bvand", OpBvOr: "bvor", OpBvXor: "bvxor",
	OpBvNot: "bvnot", OpBvNeg: "bvneg", OpBvShl: "bvshl", OpBvLShr: "bvlshr", OpBvAShr: "bvashr",
	OpUlt: "bvult", OpUle: "bvule", OpSlt: "bvslt", OpSle: "bvsle", OpConcat: "concat",
}

// Term is an immutable SMT term. w==0 means Bool, otherwise BV of width w.
type Term struct {
	op      Op
	w       uint8
	a, b, c *Term
	k       uint64
	name    string
	id      int
	gen     int // solver generation in which this term was last defined
}

func (t *Term) IsBool() bool  { return t.w == 0 }
func (t *Term) IsConst() bool { return t.op == OpConst }
func (t *Term) Width() int    { return int(t.w) }

type termKey struct {
	op      Op
	w       uint8
	a, b, c int
	k       uint64
	name    string
}

type TermTable struct {
	tab    map[termKey]*Term
	nextID int
	True   *Term
	False  *Term
}

func NewTermTable() *TermTable {
	tt := &TermTable{tab: make(map[termKey]*Term)}
	tt.True = tt.mk(OpConst, 0, nil, nil, nil, 1, "")
	tt.False = tt.mk(OpConst, 0, nil, nil, nil, 0, "")
	return tt
}

func tid(t *Term) int {
	if t == nil {
		return -1
	}
	return t.id
}

func (tt *TermTable) mk(op Op, w uint8, a, b, c *Term, k uint64, name string) *Term {
	key := termKey{op, w, tid(a), tid(b), tid(c), k, name}
	if t, ok := tt.tab[key]; ok {
		return t
	}
	t := &Term{op: op, w: w, a: a, b: b, c: c, k: k, name: name, id: tt.nextID}
	tt.nextID++
	tt.tab[key] = t
	return t
}

func mask(w uint8) uint64 {
	if w >= 64 {
		return ^uint64(0)
	}
	return (uint64(1) << w) - 1
}

func sext64(v uint64, w uint8) int64 {
	if w >= 64 {
		return int64(v)
	}
	sh := 64 - uint(w)
	return int64(v<<sh) >> sh
}

func (tt *TermTable) Bool(b bool) *Term {
	if b {
		return tt.True
	}
	return tt.False
}

func (tt *TermTable) BV(v uint64, w int) *Term {
	return tt.mk(OpConst, uint8(w), nil, nil, nil, v&mask(uint8(w)), "")
}

func (tt *TermTable) Var(name string, w int) *Term {
	return tt.mk(OpVar, uint8(w), nil, nil, nil, 0, name)
}

func (tt *TermTable) Not(a *Term) *Term {
	if a.op == OpConst {
		return tt.Bool(a.k == 0)
	}
	if a.op == OpNot {
		return a.a
	}
	return tt.mk(OpNot, 0, a, nil, nil, 0, "")
}

func (tt *TermTable) And(a, b *Term) *Term {
	if a.op == OpConst {
		if a.k == 0 {
			return tt.False
		}
		return b
	}
	if b.op == OpConst {
		if b.k == 0 {
			return tt.False
		}
		return a
	}
	if a == b {
		return a
	}
	if a.id > b.id {
		a, b = b, a
	}
	return tt.mk(OpAnd, 0, a, b, nil, 0, "")
}

func (tt *TermTable) Or(a, b *Term) *Term {
	if a.op == OpConst {
		if a.k != 0 {
			return tt.True
		}
		return b
	}
	if b.op == OpConst {
		if b.k != 0 {
			return tt.True
		}
		return a
	}
	if a == b {
		return a
	}
	if a.id > b.id {
		a, b = b, a
	}
	return tt.mk(OpOr, 0, a, b, nil, 0, "")
}

// maxVal returns an upper bound (unsigned) on t's value when cheaply known.
func maxVal(t *Term) uint64 {
	switch t.op {
	case OpConst:
		return t.k
	case OpZExt:
		return maxVal(t.a)
	case OpBvAnd:
		ma, mb := maxVal(t.a), maxVal(t.b)
		if ma < mb {
			return ma
		}
		return mb
	case OpIte:
		mb, mc := maxVal(t.b), maxVal(t.c)
		if mb > mc {
			return mb
		}
		return mc
	}
	return mask(t.w)
}

func (tt *TermTable) Eq(a, b *Term) *Term {
	if a == b {
		return tt.True
	}
	if a.w != b.w {
		panic(fmt.Sprintf("Eq: sort mismatch %d vs %d", a.w, b.w))
	}
	if a.op == OpConst && b.op == OpConst {
		return tt.Bool(a.k == b.k)
	}
	if a.w == 0 {
		// bool equality
		if a.op == OpConst {
			if a.k != 0 {
				return b
			}
			return tt.Not(b)
		}
		if b.op == OpConst {
			if b.k != 0 {
				return a
			}
			return tt.Not(a)
		}
	} else {
		if a.op == OpConst {
			a, b = b, a
		}
		if b.op == OpConst {
			if b.k > maxVal(a) {
				return tt.False
			}
			// zext(x) == c  ->  x == c'
			if a.op == OpZExt {
				return tt.Eq(a.a, tt.BV(b.k, int(a.a.w)))
			}
			// ite(c, k1, k2) == k
			if a.op == OpIte && a.b.op == OpConst && a.c.op == OpConst {
				if a.b.k == b.k && a.c.k != b.k {
					return a.a
				}
				if a.b.k != b.k && a.c.k == b.k {
					return tt.Not(a.a)
				}
				if a.b.k != b.k && a.c.k != b.k {
					return tt.False
				}
			}
		}
	}
	if a.id > b.id {
		a, b = b, a
	}
	return tt.mk(OpEq, 0, a, b, nil, 0, "")
}

func (tt *TermTable) Ite(c, a, b *Term) *Term {
	if c.op == OpConst {
		if c.k != 0 {
			return a
		}
		return b
	}
	if a == b {
		return a
	}
	if a.w != b.w {
		panic("Ite: sort mismatch")
	}
	if a.w == 0 {
		if a.op == OpConst && b.op == OpConst {
			if a.k != 0 {
				return c
			}
			return tt.Not(c)
		}
	}
	return tt.mk(OpIte, a.w, c, a, b, 0, "")
}

func foldBin(op Op, w uint8, x, y uint64) (uint64, bool) {
	m := mask(w)
	switch op {
	case OpBvAdd:
		return (x + y) & m, true
	case OpBvSub:
		return (x - y) & m, true
	case OpBvMul:
		return (x * y) & m, true
	case OpBvUDiv:
		if y == 0 {
			return m, true
		}
		return (x / y) & m, true
	case OpBvURem:
		if y == 0 {
			return x, true
		}
		return (x % y) & m, true
	case OpBvSDiv:
		sx, sy := sext64(x, w), sext64(y, w)
		if sy == 0 {
			if sx < 0 {
				return 1, true
			}
			return m, true
		}
		if sy == -1 {
			return uint64(-sx) & m, true
		}
		return uint64(sx/sy) & m, true
	case OpBvSRem:
		sx, sy := sext64(x, w), sext64(y, w)
		if sy == 0 {
			return x, true
		}
		if sy == -1 {
			return 0, true
		}
		return uint64(sx%sy) & m, true
	case OpBvAnd:
		return x & y, true
	case OpBvOr:
		return x | y, true
	case OpBvXor:
		return x ^ y, true
	case OpBvShl:
		if y >= uint64(w) {
			return 0, true
		}
		return (x << y) & m, true
	case OpBvLShr:
		if y >= uint64(w) {
			return 0, true
		}
		return x >> y, true
	case OpBvAShr:
		sx := sext64(x, w)
		if y >= uint64(w) {
			y = uint64(w) - 1
		}
		return uint64(sx>>y) & m, true
	}
	return 0, false
}

func (tt *TermTable) BvBin(op Op, a, b *Term) *Term {
	if a.w != b.w || a.w == 0 {
		panic(fmt.Sprintf("BvBin %v: width mismatch %d vs %d", op, a.w, b.w))
	}
	if a.op == OpConst && b.op == OpConst {
		if v, ok := foldBin(op, a.w, a.k, b.k); ok {
			return tt.BV(v, int(a.w))
		}
	}
	switch op {
	case OpBvAdd, OpBvOr, OpBvXor:
		if a.op == OpConst && a.k == 0 {
			return b
		}
		if b.op == OpConst && b.k == 0 {
			return a
		}
	case OpBvSub, OpBvShl, OpBvLShr, OpBvAShr:
		if b.op == OpConst && b.k == 0 {
			return a
		}
	case OpBvAnd:
		if a.op == OpConst && a.k == 0 || b.op == OpConst && b.k == 0 {
			return tt.BV(0, int(a.w))
		}
		if a.op == OpConst && a.k == mask(a.w) {
			return b
		}
		if b.op == OpConst && b.k == mask(a.w) {
			return a
		}
		if a == b {
			return a
		}
	case OpBvMul:
		if a.op == OpConst && a.k == 1 {
			return b
		}
		if b.op == OpConst && b.k == 1 {
			return a
		}
	}
	switch op {
	case OpBvAdd, OpBvMul, OpBvAnd, OpBvOr, OpBvXor:
		if a.id > b.id {
			a, b = b, a
		}
	}
	return tt.mk(op, a.w, a, b, nil, 0, "")
}

func (tt *TermTable) BvNot(a *Term) *Term {
	if a.op == OpConst {
		return tt.BV(^a.k, int(a.w))
	}
	return tt.mk(OpBvNot, a.w, a, nil, nil, 0, "")
}

func (tt *TermTable) BvNeg(a *Term) *Term {
	if a.op == OpConst {
		return tt.BV(-a.k, int(a.w))
	}
	return tt.mk(OpBvNeg, a.w, a, nil, nil, 0, "")
}

func (tt *TermTable) Cmp(op Op, a, b *Term) *Term {
	if a.w != b.w || a.w == 0 {
		panic("Cmp: width mismatch")
	}
	if a.op == OpConst && b.op == OpConst {
		switch op {
		case OpUlt:
			return tt.Bool(a.k < b.k)
		case OpUle:
			return tt.Bool(a.k <= b.k)
		case OpSlt:
			return tt.Bool(sext64(a.k, a.w) < sext64(b.k, a.w))
		case OpSle:
			return tt.Bool(sext64(a.k, a.w) <= sext64(b.k, a.w))
		}
	}
	if a == b {
		return tt.Bool(op == OpUle || op == OpSle)
	}
	// cheap range reasoning on unsigned compares
	switch op {
	case OpUlt:
		if b.op == OpConst && maxVal(a) < b.k {
			return tt.True
		}
		if b.op == OpConst && b.k == 0 {
			return tt.False
		}
	case OpUle:
		if b.op == OpConst && maxVal(a) <= b.k {
			return tt.True
		}
		if a.op == OpConst && a.k == 0 {
			return tt.True
		}
	case OpSlt, OpSle:
		// if both provably non-negative (max < 2^(w-1)) use unsigned reasoning
		half := uint64(1) << (a.w - 1)
		if maxVal(a) < half && maxVal(b) < half {
			if op == OpSlt {
				return tt.Cmp(OpUlt, a, b)
			}
			return tt.Cmp(OpUle, a, b)
		}
	}
	return tt.mk(op, 0, a, b, nil, 0, "")
}

func (tt *TermTable) ZExt(a *Term, w int) *Term {
	if int(a.w) == w {
		return a
	}
	if int(a.w) > w {
		return tt.Extract(a, w-1, 0)
	}
	if a.op == OpConst {
		return tt.BV(a.k, w)
	}
	if a.op == OpZExt {
		return tt.ZExt(a.a, w)
	}
	return tt.mk(OpZExt, uint8(w), a, nil, nil, uint64(w), "")
}

func (tt *TermTable) SExt(a *Term, w int) *Term {
	if int(a.w) == w {
		return a
	}
	if int(a.w) > w {
		return tt.Extract(a, w-1, 0)
	}
	if a.op == OpConst {
		return tt.BV(uint64(sext64(a.k, a.w)), w)
	}
	if a.op == OpZExt {
		// zext then sext == zext
		return tt.ZExt(a.a, w)
	}
	return tt.mk(OpSExt, uint8(w), a, nil, nil, uint64(w), "")
}

func (tt *TermTable) Extract(a *Term, hi, lo int) *Term {
	w := hi - lo + 1
	if lo == 0 && w == int(a.w) {
		return a
	}
	if a.op == OpConst {
		return tt.BV(a.k>>uint(lo), w)
	}
	if (a.op == OpZExt || a.op == OpSExt) && lo == 0 && w <= int(a.a.w) {
		return tt.Extract(a.a, hi, 0)
	}
	if a.op == OpZExt && lo == 0 && w > int(a.a.w) {
		return tt.ZExt(a.a, w)
	}
	return tt.mk(OpExtract, uint8(w), a, nil, nil, uint64(hi)<<8|uint64(lo), "")
}

func (tt *TermTable) Concat(a, b *Term) *Term {
	if a.op == OpConst && b.op == OpConst {
		return tt.BV(a.k<<b.w|b.k, int(a.w+b.w))
	}
	return tt.mk(OpConcat, a.w+b.w, a, b, nil, 0, "")
}

// Eval evaluates t under model (vars missing from the model are 0).
func (t *Term) Eval(model map[*Term]uint64, memo map[*Term]uint64) uint64 {
	switch t.op {
	case OpConst:
		return t.k
	case OpVar:
		return model[t] & maskOrBool(t.w)
	}
	if v, ok := memo[t]; ok {
		return v
	}
	var r uint64
	switch t.op {
	case OpNot:
		r = 1 - t.a.Eval(model, memo)
	case OpAnd:
		if t.a.Eval(model, memo) != 0 && t.b.Eval(model, memo) != 0 {
			r = 1
		}
	case OpOr:
		if t.a.Eval(model, memo) != 0 || t.b.Eval(model, memo) != 0 {
			r = 1
		}
	case OpEq:
		if t.a.Eval(model, memo) == t.b.Eval(model, memo) {
			r = 1
		}
	case OpIte:
		if t.a.Eval(model, memo) != 0 {
			r = t.b.Eval(model, memo)
		} else {
			r = t.c.Eval(model, memo)
		}
	case OpBvNot:
		r = ^t.a.Eval(model, memo) & mask(t.w)
	case OpBvNeg:
		r = -t.a.Eval(model, memo) & mask(t.w)
	case OpUlt:
		if t.a.Eval(model, memo) < t.b.Eval(model, memo) {
			r = 1
		}
	case OpUle:
		if t.a.Eval(model, memo) <= t.b.Eval(model, memo) {
			r = 1
		}
	case OpSlt:
		if sext64(t.a.Eval(model, memo), t.a.w) < sext64(t.b.Eval(model, memo), t.a.w) {
			r = 1
		}
	case OpSle:
		if sext64(t.a.Eval(model, memo), t.a.w) <= sext64(t.b.Eval(model, memo), t.a.w) {
			r = 1
		}
	case OpZExt:
		r = t.a.Eval(model, memo)
	case OpSExt:
		r = uint64(sext64(t.a.Eval(model, memo), t.a.w)) & mask(t.w)
	case OpExtract:
		lo := uint(t.k & 0xff)
		r = (t.a.Eval(model, memo) >> lo) & mask(t.w)
	case OpConcat:
		r = t.a.Eval(model, memo)<<t.b.w | t.b.Eval(model, memo)
	default:
		v, ok := foldBin(t.op, t.w, t.a.Eval(model, memo), t.b.Eval(model, memo))
		if !ok {
			panic("Eval: unknown op")
		}
		r = v
	}
	memo[t] = r
	return r
}

func maskOrBool(w uint8) uint64 {
	if w == 0 {
		return 1
	}
	return mask(w)
}

func sortStr(w uint8) string {
	if w == 0 {
		return "Bool"
	}
	return fmt.Sprintf("(_ BitVec %d)", w)
}

func constStr(t *Term) string {
	if t.w == 0 {
		if t.k != 0 {
			return "true"
		}
		return "false"
	}
	if t.w%4 == 0 {
		return fmt.Sprintf("#x%0*x", int(t.w)/4, t.k)
	}
	return fmt.Sprintf("(_ bv%d %d)", t.k, t.w)
}

// ref returns the SMT-LIB reference to t assuming composite nodes are
// defined as t<ID>.
func (t *Term) ref() string {
	switch t.op {
	case OpConst:
		return constStr(t)
	case OpVar:
		return t.name
	}
	return fmt.Sprintf("t%d", t.id)
}

// body returns the one-level SMT-LIB expression of a composite node.
func (t *Term) body() string {
	switch t.op {
	case OpZExt:
		return fmt.Sprintf("((_ zero_extend %d) %s)", int(t.w)-int(t.a.w), t.a.ref())
	case OpSExt:
		return fmt.Sprintf("((_ sign_extend %d) %s)", int(t.w)-int(t.a.w), t.a.ref())
	case OpExtract:
		return fmt.Sprintf("((_ extract %d %d) %s)", t.k>>8, t.k&0xff, t.a.ref())
	case OpIte:
		return fmt.Sprintf("(ite %s %s %s)", t.a.ref(), t.b.ref(), t.c.ref())
	}
	n := opNames[t.op]
	if t.b == nil {
		return fmt.Sprintf("(%s %s)", n, t.a.ref())
	}
	return fmt.Sprintf("(%s %s %s)", n, t.a.ref(), t.b.ref())
}

// String renders the term as a tree (debugging / samples; may be large).
func (t *Term) String() string {
	var sb strings.Builder
	t.str(&sb, 0)
	return sb.String()
}

func (t *Term) str(sb *strings.Builder, depth int) {
	if depth > 12 {
		sb.WriteString("…")
		return
	}
	switch t.op {
	case OpConst:
		sb.WriteString(constStr(t))
		return
	case OpVar:
		sb.WriteString(t.name)
		return
	case OpZExt, OpSExt:
		t.a.str(sb, depth)
		return
	case OpExtract:
		fmt.Fprintf(sb, "(extract %d %d ", t.k>>8, t.k&0xff)
		t.a.str(sb, depth+1)
		sb.WriteString(")")
		return
	}
	sb.WriteString("(")
	sb.WriteString(opNames[t.op])
	for _, c := range []*Term{t.a, t.b, t.c} {
		if c != nil {
			sb.WriteString(" ")
			c.str(sb, depth+1)
		}
	}
	sb.WriteString(")")
}

// Vars collects the variables of t into set.
func (t *Term) Vars(set map[*Term]bool, seen map[*Term]bool) {
	if t == nil || seen[t] {
		return
	}
	seen[t] = true
	if t.op == OpVar {
		set[t] = true
		return
	}
	t.a.Vars(set, seen)
	t.b.Vars(set, seen)
	t.c.Vars(set, seen)
}
