package main

// Deterministic map model. Entries live in slots; insertion takes the first
// free slot (so delete+insert reuses a slot, like a Go small map bucket);
// iteration starts at a slot offset that is 0 unless map-order exploration is
// enabled (nd.MapOrder), in which case it is a choice point. Key comparison
// may be symbolic: a lookup forks on "key == stored key" when the solver
// cannot decide it syntactically.

import (
	"go/types"
)

type mentry struct {
	key, val value
	live     bool
}

type gmap struct {
	keyType types.Type
	entries []mentry
	n       int
	writing int // goroutine id+1 currently in a two-phase write, 0 if none
}

func newMap(kt types.Type) *gmap {
	return &gmap{keyType: kt}
}

func (m *gmap) len() int {
	if m == nil {
		return 0
	}
	return m.n
}

// find returns the slot index of key or -1. May fork.
func (m *gmap) find(fr *frame, key value) int {
	if m == nil {
		return -1
	}
	p := fr.p
	for i := range m.entries {
		e := &m.entries[i]
		if !e.live {
			continue
		}
		c := p.eqv(e.key, key)
		switch c := c.(type) {
		case bool:
			if c {
				return i
			}
		case *Term:
			if p.decide(c) {
				return i
			}
		}
	}
	return -1
}

func (m *gmap) lookup(fr *frame, key value) (value, bool) {
	i := m.find(fr, key)
	if i < 0 {
		return nil, false
	}
	return m.entries[i].val, true
}

func (m *gmap) insert(fr *frame, key, val value) {
	i := m.find(fr, key)
	if i >= 0 {
		m.entries[i].val = val
		return
	}
	for i := range m.entries {
		if !m.entries[i].live {
			m.entries[i] = mentry{key, val, true}
			m.n++
			return
		}
	}
	m.entries = append(m.entries, mentry{key, val, true})
	m.n++
}

func (m *gmap) delete(fr *frame, key value) {
	i := m.find(fr, key)
	if i >= 0 {
		m.entries[i] = mentry{}
		m.n--
	}
}

type mapIter struct {
	m     *gmap
	start int
	i     int
	done  bool
	init  bool
}

func (it *mapIter) next(fr *frame) tuple {
	m := it.m
	if m == nil || it.done {
		return tuple{false, nil, nil}
	}
	if !it.init {
		it.init = true
		it.start = 0
		if fr.p.mapOrder && m.n > 1 {
			// choice of start offset among live slots
			live := 0
			for _, e := range m.entries {
				if e.live {
					live++
				}
			}
			k := fr.p.choose("maprange", live)
			for idx, e := range m.entries {
				if e.live {
					if k == 0 {
						it.start = idx
						break
					}
					k--
				}
			}
		}
		it.i = 0
	}
	n := len(m.entries)
	for it.i < n {
		idx := (it.start + it.i) % n
		it.i++
		if idx < len(m.entries) && m.entries[idx].live {
			e := m.entries[idx]
			return tuple{true, e.key, copyVal(e.val)}
		}
	}
	// entries appended during iteration (beyond the original n) may or may
	// not be visited in Go; we visit them.
	for it.i < len(m.entries) {
		idx := it.i
		it.i++
		if m.entries[idx].live {
			e := m.entries[idx]
			return tuple{true, e.key, copyVal(e.val)}
		}
	}
	it.done = true
	return tuple{false, nil, nil}
}
