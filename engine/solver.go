package main

// SMT back end: one long-lived `z3 -in` per worker, SMT-LIB2 over a pipe.
// Any `(error` line makes the enclosing query unknown.

import (
	"bufio"
	"fmt"
	"io"
	"os"
	"os/exec"
	"strconv"
	"strings"
	"time"
)

type SatResult int

const (
	Unsat SatResult = iota
	Sat
	Unknown
)

func (r SatResult) String() string {
	return [...]string{"unsat", "sat", "unknown"}[r]
}

type SolverStats struct {
	Sat, Unsat, Unknown int
	Time                time.Duration
}

type Solver struct {
	cmd   *exec.Cmd
	in    io.WriteCloser
	out   *bufio.Reader
	gen   int
	depth int
	stats SolverStats
	log   io.Writer // optional query log
	buf   strings.Builder
	bin   string
}

var solverBin = "z3"
var solverTimeoutMs = 10000

func NewSolver() *Solver {
	s := &Solver{gen: 1, bin: solverBin}
	if f := os.Getenv("GOSYM_SMTLOG"); f != "" {
		s.log, _ = os.Create(f)
	}
	s.start()
	return s
}

func (s *Solver) start() {
	var args []string
	switch {
	case strings.Contains(s.bin, "cvc5"):
		args = []string{"--incremental", "--lang=smt2", "--produce-models", fmt.Sprintf("--tlimit-per=%d", solverTimeoutMs)}
	default:
		args = []string{"-in"}
	}
	s.cmd = exec.Command(s.bin, args...)
	var err error
	s.in, err = s.cmd.StdinPipe()
	if err != nil {
		panic(err)
	}
	o, err := s.cmd.StdoutPipe()
	if err != nil {
		panic(err)
	}
	s.cmd.Stderr = os.Stderr
	s.out = bufio.NewReaderSize(o, 1<<16)
	if err := s.cmd.Start(); err != nil {
		panic(err)
	}
	if strings.Contains(s.bin, "cvc5") {
		s.send("(set-logic QF_BV)\n")
	} else {
		s.send("(set-option :produce-models true)\n(set-option :rlimit 50000000)\n")
	}
}

func (s *Solver) Close() {
	s.in.Close()
	s.cmd.Wait()
}

func (s *Solver) send(str string) {
	if s.log != nil {
		io.WriteString(s.log, str)
	}
	s.buf.WriteString(str)
}

func (s *Solver) flush() {
	if s.buf.Len() > 0 {
		io.WriteString(s.in, s.buf.String())
		s.buf.Reset()
	}
}

// BeginPath opens a fresh scope; all declarations/definitions made until
// EndPath are dropped by EndPath.
func (s *Solver) BeginPath() {
	s.gen++
	s.send("(push 1)\n")
}

func (s *Solver) EndPath() {
	s.send("(pop 1)\n")
	s.gen++
}

// define makes sure t and all its sub-terms are declared/defined in the
// current scope.
func (s *Solver) define(t *Term) {
	if t == nil || t.gen == s.gen || t.op == OpConst {
		return
	}
	// iterative post-order to avoid deep recursion
	type fr struct {
		t *Term
		i int
	}
	stack := []fr{{t, 0}}
	for len(stack) > 0 {
		top := &stack[len(stack)-1]
		n := top.t
		if n.gen == s.gen || n.op == OpConst {
			stack = stack[:len(stack)-1]
			continue
		}
		var ch *Term
		switch top.i {
		case 0:
			ch = n.a
		case 1:
			ch = n.b
		case 2:
			ch = n.c
		}
		if top.i < 3 {
			top.i++
			if ch != nil && ch.gen != s.gen && ch.op != OpConst {
				stack = append(stack, fr{ch, 0})
			}
			continue
		}
		if n.op == OpVar {
			s.send(fmt.Sprintf("(declare-const %s %s)\n", n.name, sortStr(n.w)))
		} else {
			s.send(fmt.Sprintf("(define-fun t%d () %s %s)\n", n.id, sortStr(n.w), n.body()))
		}
		n.gen = s.gen
		stack = stack[:len(stack)-1]
	}
}

func (s *Solver) Assert(t *Term) {
	s.define(t)
	s.send("(assert " + t.ref() + ")\n")
}

func (s *Solver) readLine() string {
	line, err := s.out.ReadString('\n')
	if err != nil {
		panic(fmt.Sprintf("solver died: %v", err))
	}
	return strings.TrimSpace(line)
}

// Check decides PC ∧ extra (extra may be nil).
func (s *Solver) Check(extra *Term) SatResult {
	start := time.Now()
	if extra != nil {
		s.define(extra)
		s.send("(push 1)\n(assert " + extra.ref() + ")\n")
	}
	s.send("(check-sat)\n")
	if extra != nil {
		s.send("(pop 1)\n")
	}
	s.send("(echo \"@@done\")\n")
	s.flush()
	res := Unknown
	sawErr := false
	for {
		l := s.readLine()
		if l == "@@done" || l == "\"@@done\"" {
			break
		}
		switch {
		case l == "sat":
			res = Sat
		case l == "unsat":
			res = Unsat
		case l == "unknown":
			res = Unknown
		case strings.HasPrefix(l, "(error"):
			sawErr = true
			fmt.Fprintln(os.Stderr, "solver:", l)
		}
	}
	if sawErr {
		res = Unknown
	}
	switch res {
	case Sat:
		s.stats.Sat++
	case Unsat:
		s.stats.Unsat++
	default:
		s.stats.Unknown++
	}
	s.stats.Time += time.Since(start)
	return res
}

// CheckModel decides PC ∧ extra and, when sat, returns values of vars.
func (s *Solver) CheckModel(extra *Term, vars []*Term) (SatResult, map[*Term]uint64) {
	start := time.Now()
	if extra != nil {
		s.define(extra)
		s.send("(push 1)\n(assert " + extra.ref() + ")\n")
	}
	s.send("(check-sat)\n(echo \"@@cs\")\n")
	s.flush()
	res := Unknown
	sawErr := false
	for {
		l := s.readLine()
		if l == "@@cs" || l == "\"@@cs\"" {
			break
		}
		switch {
		case l == "sat":
			res = Sat
		case l == "unsat":
			res = Unsat
		case strings.HasPrefix(l, "(error"):
			sawErr = true
			fmt.Fprintln(os.Stderr, "solver:", l)
		}
	}
	if sawErr {
		res = Unknown
	}
	var model map[*Term]uint64
	if res == Sat {
		model = make(map[*Term]uint64, len(vars))
		var decl []*Term
		for _, v := range vars {
			if v.gen == s.gen {
				decl = append(decl, v)
			}
		}
		vars = decl
		if len(vars) > 0 {
			var sb strings.Builder
			sb.WriteString("(get-value (")
			for _, v := range vars {
				sb.WriteString(v.name)
				sb.WriteString(" ")
			}
			sb.WriteString("))\n(echo \"@@gv\")\n")
			s.send(sb.String())
			s.flush()
			var all strings.Builder
			for {
				l := s.readLine()
				if l == "@@gv" || l == "\"@@gv\"" {
					break
				}
				if strings.HasPrefix(l, "(error") {
					sawErr = true
					fmt.Fprintln(os.Stderr, "solver:", l)
				}
				all.WriteString(l)
				all.WriteString(" ")
			}
			byName := make(map[string]*Term, len(vars))
			for _, v := range vars {
				byName[v.name] = v
			}
			parseValues(all.String(), byName, model)
		}
	}
	if extra != nil {
		s.send("(pop 1)\n")
	}
	switch res {
	case Sat:
		s.stats.Sat++
	case Unsat:
		s.stats.Unsat++
	default:
		s.stats.Unknown++
	}
	s.stats.Time += time.Since(start)
	return res, model
}

// parseValues parses "((name val) (name val) ...)".
func parseValues(txt string, byName map[string]*Term, out map[*Term]uint64) {
	toks := tokenize(txt)
	for i := 0; i+1 < len(toks); i++ {
		v, ok := byName[toks[i]]
		if !ok {
			continue
		}
		val := toks[i+1]
		switch {
		case val == "true":
			out[v] = 1
		case val == "false":
			out[v] = 0
		case strings.HasPrefix(val, "#x"):
			n, _ := strconv.ParseUint(val[2:], 16, 64)
			out[v] = n
		case strings.HasPrefix(val, "#b"):
			n, _ := strconv.ParseUint(val[2:], 2, 64)
			out[v] = n
		case val == "(" && i+3 < len(toks) && toks[i+2] == "_" && strings.HasPrefix(toks[i+3], "bv"):
			n, _ := strconv.ParseUint(toks[i+3][2:], 10, 64)
			out[v] = n
		}
	}
}

func tokenize(s string) []string {
	var toks []string
	cur := strings.Builder{}
	fl := func() {
		if cur.Len() > 0 {
			toks = append(toks, cur.String())
			cur.Reset()
		}
	}
	for _, r := range s {
		switch r {
		case '(', ')':
			fl()
			toks = append(toks, string(r))
		case ' ', '\t', '\n', '\r':
			fl()
		default:
			cur.WriteRune(r)
		}
	}
	fl()
	return toks
}
