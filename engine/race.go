package main

// Happens-before data-race detection (vector clocks, FastTrack-style shadow
// cells) on the schedules the explorer runs. Enabled per harness with
// nd.Races(ignore...). The interpreter is sequentially consistent and
// switches goroutines only at visible operations, so a missing lock does not
// by itself change any result here; it shows as two conflicting accesses to
// one memory cell that are not ordered by happens-before. The edges follow
// the Go memory model: go statement, mutex/rwmutex unlock->lock, wait-group
// done->wait, channel send->receive (and, conservatively, receive->later
// send), close->receive, atomic store->load, atomic.Value. Edges are only
// ever over-approximated (joined clocks), so a reported race is a real one
// for the explored schedule; counterexamples are confirmed natively with the
// Go race detector.

import (
	"fmt"
	"sort"

	"golang.org/x/tools/go/ssa"
)

const raceMaxG = 16

type vclock [raceMaxG]int32

func (a *vclock) join(b *vclock) {
	for i := range a {
		if b[i] > a[i] {
			a[i] = b[i]
		}
	}
}

type raceAccess struct {
	g     int
	c     int32
	instr ssa.Instruction
}

type cellShadow struct {
	w     raceAccess
	hasW  bool
	reads []raceAccess
}

type raceState struct {
	on      bool
	ignore  []string
	vc      [raceMaxG]vclock
	sync    map[interface{}]*vclock
	cells   map[*value]*cellShadow
	seen    map[string]bool
	count   int // races detected (before the ignore filter)
}

type syncKey struct {
	obj  interface{}
	role string
}

func (s *scheduler) raceInit(ignore []string) {
	s.race = &raceState{on: true, ignore: ignore, sync: map[interface{}]*vclock{},
		cells: map[*value]*cellShadow{}, seen: map[string]bool{}}
	for i := range s.race.vc {
		s.race.vc[i][i] = 1
	}
}

func (fr *frame) raceOn() *raceState {
	r := fr.p.sched.race
	if r == nil || !r.on {
		return nil
	}
	return r
}

// raceFork: everything the parent did so far happens before the child.
func (fr *frame) raceFork(child int) {
	r := fr.raceOn()
	if r == nil || child >= raceMaxG {
		return
	}
	me := fr.g.id
	r.vc[child] = r.vc[me]
	r.vc[child][child]++
	r.vc[me][me]++
}

func (fr *frame) raceAcquire(obj interface{}, role string) {
	r := fr.raceOn()
	if r == nil {
		return
	}
	if c := r.sync[syncKey{obj, role}]; c != nil {
		r.vc[fr.g.id].join(c)
	}
}

func (fr *frame) raceRelease(obj interface{}, role string) {
	r := fr.raceOn()
	if r == nil {
		return
	}
	k := syncKey{obj, role}
	c := r.sync[k]
	if c == nil {
		c = &vclock{}
		r.sync[k] = c
	}
	me := fr.g.id
	c.join(&r.vc[me])
	r.vc[me][me]++
}

func (r *raceState) ordered(a raceAccess, g int) bool {
	return a.g == g || a.c <= r.vc[g][a.g]
}

func isLocalAddr(v ssa.Value) bool {
	a, ok := v.(*ssa.Alloc)
	return ok && !a.Heap
}

func (fr *frame) raceRead(addr ssa.Value, cell *value) {
	r := fr.raceOn()
	if r == nil || len(fr.p.sched.gs) == 1 || isLocalAddr(addr) {
		return
	}
	fr.raceAccessCell(r, cell, false, 0)
}

func (fr *frame) raceWrite(addr ssa.Value, cell *value) {
	r := fr.raceOn()
	if r == nil || len(fr.p.sched.gs) == 1 || isLocalAddr(addr) {
		return
	}
	fr.raceAccessCell(r, cell, true, 0)
}

func (fr *frame) raceAccessCell(r *raceState, cell *value, write bool, depth int) {
	g := fr.g.id
	if g >= raceMaxG {
		return
	}
	sh := r.cells[cell]
	if sh == nil {
		sh = &cellShadow{}
		r.cells[cell] = sh
	}
	me := raceAccess{g: g, c: r.vc[g][g], instr: fr.curInstr}
	if sh.hasW && !r.ordered(sh.w, g) {
		fr.raceReport(r, sh.w, me, true, write)
	}
	if write {
		for _, rd := range sh.reads {
			if !r.ordered(rd, g) {
				fr.raceReport(r, rd, me, false, true)
			}
		}
		sh.w, sh.hasW = me, true
		sh.reads = sh.reads[:0]
	} else {
		found := false
		for i := range sh.reads {
			if sh.reads[i].g == g {
				sh.reads[i] = me
				found = true
				break
			}
		}
		if !found {
			sh.reads = append(sh.reads, me)
		}
	}
	// an access to a whole struct or array touches its elements too
	if depth < 4 {
		switch x := (*cell).(type) {
		case structure:
			for i := range x {
				fr.raceAccessCell(r, &x[i], write, depth+1)
			}
		case array:
			for i := range x {
				fr.raceAccessCell(r, &x[i], write, depth+1)
			}
		}
	}
}

func instrSite(in ssa.Instruction) string {
	if in == nil {
		return "?"
	}
	fn := in.Parent()
	if fn == nil {
		return "?"
	}
	pos := in.Pos()
	if !pos.IsValid() {
		// loads/stores often carry no position: use the enclosing function
		return fn.String()
	}
	pp := fn.Prog.Fset.Position(pos)
	return shortPos(pp.Filename, pp.Line) + " (" + fn.Name() + ")"
}

func (fr *frame) raceReport(r *raceState, prev, cur raceAccess, prevWrite, curWrite bool) {
	a, b := instrSite(prev.instr), instrSite(cur.instr)
	r.count++
	for _, ig := range r.ignore {
		if ig == "*" || contains(a, ig) || contains(b, ig) {
			return
		}
	}
	kind := func(w bool) string {
		if w {
			return "write"
		}
		return "read"
	}
	pair := []string{kind(prevWrite) + " " + a, kind(curWrite) + " " + b}
	sort.Strings(pair)
	label := "race:" + pair[0] + " / " + pair[1]
	if r.seen[label] {
		return
	}
	r.seen[label] = true
	p := fr.p
	if !p.ensureModelSafe() {
		return
	}
	msg := fmt.Sprintf("data race: %s by goroutine %d is not ordered with %s by goroutine %d", kind(prevWrite)+" at "+a, prev.g, kind(curWrite)+" at "+b, cur.g)
	p.violate(label, b, msg, nil)
}
