package main

// Redirection of os / io/ioutil / path/filepath entry points to the host
// file-system model (virtual package zzverif/hostfs, interpreted like any
// other code). Active only when the model package is part of the program.

import "golang.org/x/tools/go/ssa"

const hostfsPkg = modPath + "/zzverif/hostfs"

func init() {
	redirect := func(from, to string) {
		externals[from] = func(fr *frame, a []value) value {
			hp := fr.i.env.pkgs[hostfsPkg]
			if hp == nil {
				panic(unsupported(from + " (host file-system model not loaded)"))
			}
			var fn *ssa.Function = hp.Func(to)
			if fn == nil {
				panic(unsupported("hostfs." + to + " missing"))
			}
			return fr.call(fr.curPos(), fn, a, nil)
		}
	}
	for from, to := range map[string]string{
		"os.Stat": "Stat", "os.Lstat": "Stat", "os.MkdirAll": "MkdirAll", "os.Remove": "Remove", "os.RemoveAll": "RemoveAll",
		"os.OpenFile": "OpenFile", "os.Open": "Open", "os.Create": "Create",
		"(*os.File).Read": "FileRead", "(*os.File).Write": "FileWrite", "(*os.File).Close": "FileClose", "(*os.File).Sync": "FileSync",
		"(*os.File).Stat": "FileStat", "(*os.File).ReadFrom": "FileReadFrom", "(*os.File).WriteTo": "FileWriteTo",
		"io/ioutil.ReadDir": "ReadDir", "io/ioutil.ReadFile": "ReadFile", "io/ioutil.WriteFile": "WriteFile",
		"os.ReadFile": "ReadFile", "os.WriteFile": "WriteFile",
		"path/filepath.Abs": "Abs", "path/filepath.Walk": "Walk",
		"os.IsNotExist": "IsNotExist", "os.IsExist": "IsExist", "os.ReadDir": "ReadDirEntries",
	} {
		redirect(from, to)
	}
	// filepath on unix is lexical: reuse the real path package
	externals["path/filepath.Dir"] = func(fr *frame, a []value) value {
		return fr.call(fr.curPos(), fr.i.env.pkgs["path"].Func("Dir"), a, nil)
	}
	externals["path/filepath.Clean"] = func(fr *frame, a []value) value {
		return fr.call(fr.curPos(), fr.i.env.pkgs["path"].Func("Clean"), a, nil)
	}
	externals["path/filepath.Base"] = func(fr *frame, a []value) value {
		return fr.call(fr.curPos(), fr.i.env.pkgs["path"].Func("Base"), a, nil)
	}
	externals["path/filepath.Join"] = func(fr *frame, a []value) value {
		return fr.call(fr.curPos(), fr.i.env.pkgs["path"].Func("Join"), a, nil)
	}
}
