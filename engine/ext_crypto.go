package main

// Ideal-primitive models of the cryptographic leaf functions.
//
//   hash256 (sha3.New256 + Write + Sum): a random oracle with a ghost table:
//     equal inputs give the same 32 symbolic bytes, different inputs give
//     outputs assumed different (collision freedom).
//   AES-GCM (aes.NewCipher + cipher.NewGCM + Seal/Open): an ideal AEAD with a
//     ghost table: Seal returns len(pt)+16 fresh symbolic bytes and records
//     (key, nonce, ad, pt, box); Open returns the recorded plaintext iff key,
//     nonce, ad and every ciphertext byte equal a recorded entry (decided by
//     the solver), otherwise the authentication error.
//   crypto/rand.Reader: fresh unconstrained bytes.

import (
	"go/types"

	"golang.org/x/tools/go/ssa"
)

type hashEntry struct {
	in  []value
	out []value
}

type sealEntry struct {
	key, nonce, ad, pt, box []value
}

type cryptoState struct {
	hashes []hashEntry
	seals  []sealEntry
}

func (p *Path) crypto() *cryptoState {
	if p.cs == nil {
		p.cs = &cryptoState{}
	}
	return p.cs
}

func (p *Path) seqEq(a, b []value) value {
	if len(a) != len(b) {
		return false
	}
	var acc value = true
	for i := range a {
		acc = p.andv(acc, p.byteEq(a[i], b[i]))
		if acc == false {
			return false
		}
	}
	return acc
}

func (p *Path) freshBytes(label string, n int) []value {
	out := make([]value, n)
	for i := range out {
		out[i] = p.newVar(label, 8)
	}
	return out
}

func cloneVals(s []value) []value { return append([]value(nil), s...) }

func init() {
	externals["golang.org/x/crypto/sha3.New256"] = func(fr *frame, a []value) value {
		sp := fr.i.env.pkgs["golang.org/x/crypto/sha3"]
		t := sp.Type("state").Object().Type()
		z := zero(t)
		return iface{t: types.NewPointer(t), v: &z}
	}
	sha := "(*golang.org/x/crypto/sha3.state)."
	bufOf := func(fr *frame, recv value) *value {
		return fieldOf(recv.(*value), deref(fr.fn.Signature.Recv().Type()), "buf")
	}
	externals[sha+"Write"] = func(fr *frame, a []value) value {
		b := bufOf(fr, a[0])
		cur, _ := (*b).([]value)
		*b = append(cloneVals(cur), a[1].([]value)...)
		return tuple{len(a[1].([]value)), iface{}}
	}
	externals[sha+"Reset"] = func(fr *frame, a []value) value {
		*bufOf(fr, a[0]) = []value(nil)
		return nil
	}
	externals[sha+"Size"] = func(fr *frame, a []value) value { return 32 }
	externals[sha+"BlockSize"] = func(fr *frame, a []value) value { return 136 }
	externals[sha+"Sum"] = func(fr *frame, a []value) value {
		p := fr.p
		cs := p.crypto()
		in, _ := (*bufOf(fr, a[0])).([]value)
		in = cloneVals(in)
		var out []value
		for _, e := range cs.hashes {
			if p.truth(p.seqEq(e.in, in)) {
				out = e.out
				break
			}
		}
		if out == nil {
			out = p.freshBytes("hash", 32)
			// collision freedom: differs from every earlier digest
			for _, e := range cs.hashes {
				p.assume(p.notv(p.seqEq(e.out, out)))
			}
			cs.hashes = append(cs.hashes, hashEntry{in, out})
		}
		// like the real Sum: append(b, digest...) - in place when b has room
		prefix, _ := a[1].([]value)
		return append(prefix, cloneVals(out)...)
	}

	externals["crypto/aes.NewCipher"] = func(fr *frame, a []value) value {
		key := a[0].([]value)
		switch len(key) {
		case 16, 24, 32:
		default:
			ep := fr.i.env.pkgs["errors"]
			e := fr.call(fr.curPos(), ep.Func("New"), []value{"crypto/aes: invalid key size"}, nil)
			return tuple{iface{}, e}
		}
		ap := fr.i.env.pkgs["crypto/aes"]
		t := ap.Type("aesCipher").Object().Type()
		var cell value = structure{&native{kind: "aeskey", v: cloneVals(key)}}
		return tuple{iface{t: types.NewPointer(t), v: &cell}, iface{}}
	}
	externals["crypto/cipher.NewGCM"] = func(fr *frame, a []value) value {
		blk := a[0].(iface)
		keyCell := blk.v.(*value)
		key := (*keyCell).(structure)[0].(*native).v.([]value)
		cp := fr.i.env.pkgs["crypto/cipher"]
		t := cp.Type("gcm").Object().Type()
		var cell value = structure{&native{kind: "gcm", v: key}}
		return tuple{iface{t: types.NewPointer(t), v: &cell}, iface{}}
	}
	gcmKey := func(recv value) []value {
		return (*recv.(*value)).(structure)[0].(*native).v.([]value)
	}
	externals["(*crypto/cipher.gcm).NonceSize"] = func(fr *frame, a []value) value { return 12 }
	externals["(*crypto/cipher.gcm).Overhead"] = func(fr *frame, a []value) value { return 16 }
	externals["(*crypto/cipher.gcm).Seal"] = func(fr *frame, a []value) value {
		p := fr.p
		key := gcmKey(a[0])
		dst, _ := a[1].([]value)
		nonce := a[2].([]value)
		pt, _ := a[3].([]value)
		ad, _ := a[4].([]value)
		if len(nonce) != 12 {
			panic(targetPanic{v: iface{types.Typ[types.String], "crypto/cipher: incorrect nonce length given to GCM"}, site: fr.site()})
		}
		box := p.freshBytes("box", len(pt)+16)
		// Seal is a function, and an injective one per (key, nonce, ad):
		// relate the fresh box to every earlier box of the same length
		for _, e := range p.crypto().seals {
			if len(e.pt) != len(pt) {
				continue
			}
			same := p.andv(p.andv(p.seqEq(e.key, key), p.seqEq(e.nonce, nonce)), p.seqEq(e.ad, ad))
			ptEq := p.seqEq(e.pt, pt)
			boxEq := p.seqEq(e.box, box)
			// same ∧ ptEq ⇒ boxEq ;  same ∧ boxEq ⇒ ptEq
			p.assume(p.orv(p.notv(p.andv(same, ptEq)), boxEq))
			p.assume(p.orv(p.notv(p.andv(same, boxEq)), ptEq))
		}
		p.crypto().seals = append(p.crypto().seals, sealEntry{cloneVals(key), cloneVals(nonce), cloneVals(ad), cloneVals(pt), box})
		return append(cloneVals(dst), box...)
	}
	externals["(*crypto/cipher.gcm).Open"] = func(fr *frame, a []value) value {
		p := fr.p
		key := gcmKey(a[0])
		dst, _ := a[1].([]value)
		nonce := a[2].([]value)
		ct, _ := a[3].([]value)
		ad, _ := a[4].([]value)
		fail := func(msg string) value {
			ep := fr.i.env.pkgs["errors"]
			e := fr.call(fr.curPos(), ep.Func("New"), []value{msg}, nil)
			return tuple{[]value(nil), e}
		}
		if len(nonce) != 12 {
			panic(targetPanic{v: iface{types.Typ[types.String], "crypto/cipher: incorrect nonce length given to GCM"}, site: fr.site()})
		}
		if len(ct) < 16 {
			return fail("cipher: message authentication failed")
		}
		for _, e := range p.crypto().seals {
			if len(e.box) != len(ct) {
				continue
			}
			c := p.andv(p.andv(p.seqEq(e.key, key), p.seqEq(e.nonce, nonce)), p.andv(p.seqEq(e.box, ct), p.seqEq(e.ad, ad)))
			if p.truth(c) {
				return tuple{append(cloneVals(dst), cloneVals(e.pt)...), iface{}}
			}
		}
		return fail("cipher: message authentication failed")
	}
	externals["(*crypto/rand.reader).Read"] = func(fr *frame, a []value) value {
		buf := a[1].([]value)
		fresh := fr.p.freshBytes("rand", len(buf))
		copy(buf, fresh)
		return tuple{len(buf), iface{}}
	}
}

// specialGlobal provides values for a few globals of packages that are not
// initialised by the engine.
func (i *interpreter) specialGlobal(g *ssa.Global) (value, bool) {
	if g.Pkg.Pkg.Path() == "crypto/rand" && g.Name() == "Reader" {
		t := g.Pkg.Type("reader").Object().Type()
		z := zero(t)
		return iface{t: types.NewPointer(t), v: &z}, true
	}
	return nil, false
}
