package main

// Value representation of the symbolic interpreter. Derived from
// golang.org/x/tools/go/ssa/interp (BSD licence, The Go Authors), extended
// with symbolic scalars (*Term), symbolic strings (symstr), deterministic
// maps (gmap) and engine-scheduled channels (gchan).
//
// Dynamic types inside `value`:
//   bool, int..uint64, uintptr, float32/64, complex64/128, string  concrete scalars
//   *Term            symbolic bool / integer (bit-vector of the Go width)
//   symstr           string with at least one symbolic byte (length concrete)
//   *gmap            map
//   *gchan           channel
//   []value          slice (capacity managed explicitly, see appendSlice)
//   iface            interface value
//   structure, array aggregates (copied on load/store)
//   *value           pointer
//   *ssa.Function, *ssa.Builtin, *closure   functions
//   tuple, iter, rtype, **deferred, *native

import (
	"bytes"
	"fmt"
	"go/types"
	"strings"
	"unsafe"

	"golang.org/x/tools/go/ssa"
)

type value interface{}

type tuple []value

type array []value

type iface struct {
	t types.Type // never an "untyped" type
	v value
}

type structure []value

type iter interface {
	next(fr *frame) tuple
}

type closure struct {
	Fn  *ssa.Function
	Env []value
}

type bad struct{}

type rtype struct {
	t types.Type
}

// symstr is a string whose bytes may be symbolic. Elements are uint8 or
// *Term of width 8. Length is always concrete.
type symstr struct {
	b []value
}

// native wraps an engine-side Go object handed to interpreted code as an
// opaque pointer (e.g. compiled regexp).
type native struct {
	kind string
	v    interface{}
}

func isSym(v value) bool {
	_, ok := v.(*Term)
	return ok
}

// ---------------------------------------------------------------- strings

func strLen(v value) int {
	switch s := v.(type) {
	case string:
		return len(s)
	case symstr:
		return len(s.b)
	}
	panic(fmt.Sprintf("strLen: %T", v))
}

// strBytes returns the bytes of a string value as a fresh []value.
func strBytes(v value) []value {
	switch s := v.(type) {
	case string:
		r := make([]value, len(s))
		for i := 0; i < len(s); i++ {
			r[i] = s[i]
		}
		return r
	case symstr:
		r := make([]value, len(s.b))
		copy(r, s.b)
		return r
	}
	panic(fmt.Sprintf("strBytes: %T", v))
}

// strAt returns byte i without copying.
func strAt(v value, i int) value {
	switch s := v.(type) {
	case string:
		return s[i]
	case symstr:
		return s.b[i]
	}
	panic(fmt.Sprintf("strAt: %T", v))
}

// mkStr builds a string value from bytes (taking ownership of b),
// normalising to a native string when all bytes are concrete.
func mkStr(b []value) value {
	for _, x := range b {
		if _, ok := x.(*Term); ok {
			return symstr{b}
		}
	}
	bs := make([]byte, len(b))
	for i, x := range b {
		bs[i] = x.(uint8)
	}
	return string(bs)
}

func strSlice(v value, lo, hi int) value {
	switch s := v.(type) {
	case string:
		return s[lo:hi]
	case symstr:
		nb := make([]value, hi-lo)
		copy(nb, s.b[lo:hi])
		return mkStr(nb)
	}
	panic(fmt.Sprintf("strSlice: %T", v))
}

func strConcat(x, y value) value {
	if xs, ok := x.(string); ok {
		if ys, ok := y.(string); ok {
			return xs + ys
		}
	}
	return mkStr(append(strBytes(x), strBytes(y)...))
}

// ---------------------------------------------------------------- equality

func sameType(x, y types.Type) bool {
	if x == nil {
		return y == nil
	}
	return y != nil && types.Identical(x, y)
}

// eqv returns x == y under Go's equivalence for the (dynamic) values; the
// result is a bool or a *Term (Bool).
func (p *Path) eqv(x, y value) value {
	switch x := x.(type) {
	case bool:
		switch y := y.(type) {
		case bool:
			return x == y
		case *Term:
			return p.fromBoolTerm(p.tt.Eq(p.tt.Bool(x), y))
		}
	case *Term:
		yt := p.toTerm(y)
		return p.fromBoolTerm(p.tt.Eq(x, yt))
	case string:
		switch y := y.(type) {
		case string:
			return x == y
		case symstr:
			return p.strEq(x, y)
		}
	case symstr:
		return p.strEq(x, y)
	case *value:
		return x == y.(*value)
	case *gchan:
		return x == y.(*gchan)
	case structure:
		y := y.(structure)
		var acc value = true
		for i := range x {
			acc = p.andv(acc, p.eqv(x[i], y[i]))
			if acc == false {
				return false
			}
		}
		return acc
	case array:
		y := y.(array)
		var acc value = true
		for i := range x {
			acc = p.andv(acc, p.eqv(x[i], y[i]))
			if acc == false {
				return false
			}
		}
		return acc
	case iface:
		y := y.(iface)
		if !sameType(x.t, y.t) {
			return false
		}
		if x.t == nil {
			return true
		}
		return p.eqv(x.v, y.v)
	case rtype:
		return types.Identical(x.t, y.(rtype).t)
	case *native:
		return x == y.(*native)
	case *gmap:
		// only comparable to nil
		return (x == nil) && (y.(*gmap) == nil)
	case *ssa.Function, *closure, *ssa.Builtin:
		return isNilFunc(x) && isNilFunc(y)
	case []value:
		return x == nil && y.([]value) == nil
	case unsafe.Pointer:
		return x == y.(unsafe.Pointer)
	}
	if yt, ok := y.(*Term); ok {
		return p.fromBoolTerm(p.tt.Eq(p.toTerm(x), yt))
	}
	// concrete numerics
	return x == y
}

func isNilFunc(v value) bool {
	switch f := v.(type) {
	case *ssa.Function:
		return f == nil
	case *closure:
		return f == nil
	case *ssa.Builtin:
		return f == nil
	}
	return false
}

func (p *Path) strEq(x, y value) value {
	n := strLen(x)
	if n != strLen(y) {
		return false
	}
	acc := p.tt.True
	for i := 0; i < n; i++ {
		a, b := strAt(x, i), strAt(y, i)
		ac, aok := a.(uint8)
		bc, bok := b.(uint8)
		if aok && bok {
			if ac != bc {
				return false
			}
			continue
		}
		acc = p.tt.And(acc, p.tt.Eq(p.toTerm(a), p.toTerm(b)))
		if acc == p.tt.False {
			return false
		}
	}
	return p.fromBoolTerm(acc)
}

// strLess returns x < y (lexicographic, bytewise) as bool or *Term.
func (p *Path) strLess(x, y value) value {
	if xs, ok := x.(string); ok {
		if ys, ok := y.(string); ok {
			return xs < ys
		}
	}
	nx, ny := strLen(x), strLen(y)
	n := nx
	if ny < n {
		n = ny
	}
	// build from the end: less_i = x[i]<y[i] || (x[i]==y[i] && less_{i+1})
	res := p.tt.Bool(nx < ny)
	for i := n - 1; i >= 0; i-- {
		a, b := p.toTerm(strAt(x, i)), p.toTerm(strAt(y, i))
		res = p.tt.Or(p.tt.Cmp(OpUlt, a, b), p.tt.And(p.tt.Eq(a, b), res))
	}
	return p.fromBoolTerm(res)
}

func (p *Path) andv(x, y value) value {
	if xb, ok := x.(bool); ok {
		if !xb {
			return false
		}
		return y
	}
	if yb, ok := y.(bool); ok {
		if !yb {
			return false
		}
		return x
	}
	return p.fromBoolTerm(p.tt.And(x.(*Term), y.(*Term)))
}

func (p *Path) orv(x, y value) value {
	if xb, ok := x.(bool); ok {
		if xb {
			return true
		}
		return y
	}
	if yb, ok := y.(bool); ok {
		if yb {
			return true
		}
		return x
	}
	return p.fromBoolTerm(p.tt.Or(x.(*Term), y.(*Term)))
}

func (p *Path) notv(x value) value {
	if xb, ok := x.(bool); ok {
		return !xb
	}
	return p.fromBoolTerm(p.tt.Not(x.(*Term)))
}

func (p *Path) fromBoolTerm(t *Term) value {
	if t.op == OpConst {
		return t.k != 0
	}
	return t
}

// toTerm converts a scalar value to a term.
func (p *Path) toTerm(v value) *Term {
	switch x := v.(type) {
	case *Term:
		return x
	case bool:
		return p.tt.Bool(x)
	case int:
		return p.tt.BV(uint64(x), 64)
	case int8:
		return p.tt.BV(uint64(x), 8)
	case int16:
		return p.tt.BV(uint64(x), 16)
	case int32:
		return p.tt.BV(uint64(x), 32)
	case int64:
		return p.tt.BV(uint64(x), 64)
	case uint:
		return p.tt.BV(uint64(x), 64)
	case uint8:
		return p.tt.BV(uint64(x), 8)
	case uint16:
		return p.tt.BV(uint64(x), 16)
	case uint32:
		return p.tt.BV(uint64(x), 32)
	case uint64:
		return p.tt.BV(x, 64)
	case uintptr:
		return p.tt.BV(uint64(x), 64)
	}
	panic(unsupported(fmt.Sprintf("toTerm: %T", v)))
}

// fromTerm converts a term back to a concrete Go value of basic type t when
// it is constant; otherwise returns the term itself.
func fromTerm(t *Term, typ types.Type) value {
	if t.op != OpConst {
		return t
	}
	b, ok := typ.Underlying().(*types.Basic)
	if !ok {
		panic(fmt.Sprintf("fromTerm: non-basic type %s", typ))
	}
	k := t.k
	switch b.Kind() {
	case types.Bool, types.UntypedBool:
		return k != 0
	case types.Int, types.UntypedInt:
		return int(k)
	case types.Int8:
		return int8(k)
	case types.Int16:
		return int16(k)
	case types.Int32, types.UntypedRune:
		return int32(k)
	case types.Int64:
		return int64(k)
	case types.Uint:
		return uint(k)
	case types.Uint8:
		return uint8(k)
	case types.Uint16:
		return uint16(k)
	case types.Uint32:
		return uint32(k)
	case types.Uint64:
		return k
	case types.Uintptr:
		return uintptr(k)
	}
	panic(fmt.Sprintf("fromTerm: unexpected kind %s", typ))
}

func isSignedType(t types.Type) bool {
	b, ok := t.Underlying().(*types.Basic)
	return ok && b.Info()&types.IsInteger != 0 && b.Info()&types.IsUnsigned == 0
}

func intWidth(t types.Type) int {
	b, ok := t.Underlying().(*types.Basic)
	if !ok {
		return 0
	}
	switch b.Kind() {
	case types.Int8, types.Uint8:
		return 8
	case types.Int16, types.Uint16:
		return 16
	case types.Int32, types.Uint32, types.UntypedRune:
		return 32
	case types.Int, types.Uint, types.Int64, types.Uint64, types.Uintptr, types.UntypedInt:
		return 64
	}
	return 0
}

// ---------------------------------------------------------------- load/store

func load(T types.Type, addr *value) value {
	switch T := T.Underlying().(type) {
	case *types.Struct:
		v := (*addr).(structure)
		a := make(structure, len(v))
		for i := range a {
			a[i] = load(T.Field(i).Type(), &v[i])
		}
		return a
	case *types.Array:
		v := (*addr).(array)
		a := make(array, len(v))
		for i := range a {
			a[i] = load(T.Elem(), &v[i])
		}
		return a
	default:
		return *addr
	}
}

func store(T types.Type, addr *value, v value) {
	switch T := T.Underlying().(type) {
	case *types.Struct:
		lhs := (*addr).(structure)
		rhs := v.(structure)
		for i := range lhs {
			store(T.Field(i).Type(), &lhs[i], rhs[i])
		}
	case *types.Array:
		lhs := (*addr).(array)
		rhs := v.(array)
		for i := range lhs {
			store(T.Elem(), &lhs[i], rhs[i])
		}
	default:
		*addr = v
	}
}

// copyVal makes an unaliased copy of an aggregate value (struct/array);
// other values are returned as is.
func copyVal(v value) value {
	switch v := v.(type) {
	case structure:
		a := make(structure, len(v))
		for i := range v {
			a[i] = copyVal(v[i])
		}
		return a
	case array:
		a := make(array, len(v))
		for i := range v {
			a[i] = copyVal(v[i])
		}
		return a
	}
	return v
}

// ---------------------------------------------------------------- printing

func writeValue(buf *bytes.Buffer, v value) {
	switch v := v.(type) {
	case nil, bool, int, int8, int16, int32, int64, uint, uint8, uint16, uint32, uint64, uintptr, float32, float64, complex64, complex128, string:
		fmt.Fprintf(buf, "%v", v)
	case *Term:
		buf.WriteString("<sym>")
	case symstr:
		buf.WriteString("<symstr:")
		for _, b := range v.b {
			if c, ok := b.(uint8); ok {
				buf.WriteByte(c)
			} else {
				buf.WriteString("?")
			}
		}
		buf.WriteString(">")
	case *gmap:
		buf.WriteString("map[")
		if v != nil {
			sep := ""
			for _, e := range v.entries {
				if !e.live {
					continue
				}
				buf.WriteString(sep)
				sep = " "
				writeValue(buf, e.key)
				buf.WriteString(":")
				writeValue(buf, e.val)
			}
		}
		buf.WriteString("]")
	case *gchan:
		fmt.Fprintf(buf, "chan(%p)", v)
	case *value:
		if v == nil {
			buf.WriteString("<nil>")
		} else {
			fmt.Fprintf(buf, "%p", v)
		}
	case iface:
		fmt.Fprintf(buf, "(%s, ", v.t)
		writeValue(buf, v.v)
		buf.WriteString(")")
	case structure:
		buf.WriteString("{")
		for i, e := range v {
			if i > 0 {
				buf.WriteString(" ")
			}
			writeValue(buf, e)
		}
		buf.WriteString("}")
	case array:
		buf.WriteString("[")
		for i, e := range v {
			if i > 0 {
				buf.WriteString(" ")
			}
			writeValue(buf, e)
		}
		buf.WriteString("]")
	case []value:
		buf.WriteString("[")
		for i, e := range v {
			if i > 0 {
				buf.WriteString(" ")
			}
			writeValue(buf, e)
		}
		buf.WriteString("]")
	case *ssa.Function, *ssa.Builtin, *closure:
		fmt.Fprintf(buf, "%p", v)
	case rtype:
		buf.WriteString(v.t.String())
	case tuple:
		buf.WriteString("(")
		for i, e := range v {
			if i > 0 {
				buf.WriteString(", ")
			}
			writeValue(buf, e)
		}
		buf.WriteString(")")
	default:
		fmt.Fprintf(buf, "<%T>", v)
	}
}

func toString(v value) string {
	var b bytes.Buffer
	writeValue(&b, v)
	return b.String()
}

var _ = strings.Contains
