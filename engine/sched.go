package main

// Goroutines, scheduler, channels, select. Interpreted goroutines run on
// host goroutines but strictly one at a time (baton passing); "who runs
// next" at a visible operation is a choice point of the explorer, bounded by
// a preemption budget.

import (
	"fmt"
	"go/types"
	"sync"

	"golang.org/x/tools/go/ssa"
)

type goroutine struct {
	id       int
	resume   chan struct{}
	done     bool
	waiting  func() bool
	waitDesc string
	top      *frame
	// value of the shared-state epoch (scheduler.visOps) when the goroutine
	// last resumed from a Gosched (0 at start)
	epochAtWake int
}

type pathEnd struct {
	abort *abortPath
	panic *targetPanic
	fatal string
	gid   int
	stack []string
}

type scheduler struct {
	p        *Path
	gs       []*goroutine
	cur      *goroutine
	explore  bool
	mapRaces bool
	bound    int
	preempts int
	killed   bool
	history  []int
	finished chan pathEnd
	wg       sync.WaitGroup
	visOps   int
	maxG     int
	race     *raceState
}

func newScheduler(p *Path) *scheduler {
	return &scheduler{p: p, finished: make(chan pathEnd, 64), maxG: 16}
}

func (s *scheduler) enabled(g *goroutine) bool {
	if g.done {
		return false
	}
	if g.waiting == nil {
		return true
	}
	return g.waiting()
}

func (s *scheduler) othersEnabled(me *goroutine) []*goroutine {
	var out []*goroutine
	for _, g := range s.gs {
		if g != me && s.enabled(g) {
			out = append(out, g)
		}
	}
	return out
}

// switchTo hands the baton to next and parks the caller (me) until resumed.
func (s *scheduler) switchTo(me, next *goroutine) {
	if next == me {
		return
	}
	s.cur = next
	s.history = append(s.history, next.id)
	next.resume <- struct{}{}
	s.park(me)
}

func (s *scheduler) park(me *goroutine) {
	<-me.resume
	if s.killed {
		panic(abortPath{"killed", "killed"})
	}
}

// schedPoint is called by the running goroutine before a visible operation.
func (fr *frame) schedPoint(kind string) {
	s := fr.p.sched
	if !s.explore || len(s.gs) == 1 {
		return
	}
	if s.preempts >= s.bound {
		return
	}
	me := fr.g
	others := s.othersEnabled(me)
	if len(others) == 0 {
		return
	}
	c := fr.p.choose("sched", 1+len(others))
	if c == 0 {
		return
	}
	s.preempts++
	s.switchTo(me, others[c-1])
}

// pausePoint models a long-running stretch of code (nd.Pause): any other
// enabled goroutine may run here; the switch does not count as a preemption.
func (fr *frame) pausePoint() {
	s := fr.p.sched
	if !s.explore || len(s.gs) == 1 {
		return
	}
	me := fr.g
	others := s.othersEnabled(me)
	if len(others) == 0 {
		return
	}
	c := fr.p.choose("sched", 1+len(others))
	if c == 0 {
		return
	}
	s.switchTo(me, others[c-1])
}

// block parks the current goroutine until pred holds.
func (fr *frame) blockOn(pred func() bool, desc string) {
	s := fr.p.sched
	me := fr.g
	for !pred() {
		me.waiting = pred
		me.waitDesc = desc
		next := s.pickNext(fr, me)
		if next == nil {
			s.deadlock(fr, me)
		}
		s.switchTo(me, next)
	}
	me.waiting = nil
	me.waitDesc = ""
}

// pickNext chooses the goroutine to run when me cannot continue.
func (s *scheduler) pickNext(fr *frame, me *goroutine) *goroutine {
	others := s.othersEnabled(me)
	if len(others) == 0 {
		return nil
	}
	if !s.explore || len(others) == 1 {
		// deterministic: next id after me, round robin
		best := others[0]
		for _, g := range others {
			if g.id > me.id {
				best = g
				break
			}
		}
		return best
	}
	c := s.p.choose("sched", len(others))
	return others[c]
}

func (s *scheduler) describe() string {
	out := ""
	for _, g := range s.gs {
		st := "runnable"
		if g.done {
			st = "done"
		} else if g.waiting != nil {
			st = "blocked on " + g.waitDesc
		}
		out += fmt.Sprintf("g%d: %s; ", g.id, st)
	}
	return out
}

func (s *scheduler) deadlock(fr *frame, me *goroutine) {
	msg := "all goroutines are asleep - deadlock! " + s.describe()
	s.finished <- pathEnd{fatal: msg, gid: me.id, stack: fr.stack(8)}
	s.park(me) // will be killed
	panic(abortPath{"killed", "deadlock"})
}

func (fr *frame) fatal(msg string) {
	s := fr.p.sched
	s.finished <- pathEnd{fatal: msg, gid: fr.g.id, stack: fr.stack(8)}
	s.park(fr.g)
	panic(abortPath{"killed", "fatal"})
}

// spawn starts a new interpreted goroutine.
func (fr *frame) spawn(instr *ssa.Go, fn value, args []value) {
	s := fr.p.sched
	if len(s.gs) >= s.maxG {
		panic(abortPath{"budget", "too many goroutines"})
	}
	g := &goroutine{id: len(s.gs), resume: make(chan struct{}, 1)}
	s.gs = append(s.gs, g)
	fr.raceFork(g.id)
	root := &frame{i: fr.i, p: fr.p, g: g, fn: fr.fn, curInstr: instr}
	g.top = root
	s.wg.Add(1)
	go s.runGoroutine(g, func() {
		root.call(instr.Pos(), fn, args, nil)
	})
	s.visOps++
	fr.schedPoint("go")
}

// runGoroutine is the host goroutine body of an interpreted goroutine.
func (s *scheduler) runGoroutine(g *goroutine, body func()) {
	defer s.wg.Done()
	defer func() {
		r := recover()
		if r == nil {
			return
		}
		switch r := r.(type) {
		case abortPath:
			if r.kind == "killed" {
				return
			}
			s.finished <- pathEnd{abort: &r, gid: g.id}
		case targetPanic:
			s.finished <- pathEnd{panic: &r, gid: g.id}
		default:
			a := abortPath{"engine", fmt.Sprintf("%v\n%s", r, hostStack())}
			s.finished <- pathEnd{abort: &a, gid: g.id}
		}
		// wait to be killed
		<-g.resume
	}()
	// wait for first scheduling
	<-g.resume
	if s.killed {
		return
	}
	body()
	// goroutine exit
	g.done = true
	s.visOps++
	if g.id == 0 {
		s.finished <- pathEnd{gid: 0}
		<-g.resume
		return
	}
	// hand over to someone else
	var next *goroutine
	others := s.othersEnabled(g)
	if len(others) > 0 {
		if !s.explore || len(others) == 1 {
			next = others[0]
			for _, o := range others {
				if o.id > g.id {
					next = o
					break
				}
			}
		} else {
			next = others[s.p.choose("sched", len(others))]
		}
	}
	if next == nil {
		msg := "all goroutines are asleep - deadlock! " + s.describe()
		s.finished <- pathEnd{fatal: msg, gid: g.id}
		<-g.resume
		return
	}
	s.cur = next
	s.history = append(s.history, next.id)
	next.resume <- struct{}{}
}

// killAll terminates every parked goroutine and waits for them.
func (s *scheduler) killAll() {
	s.killed = true
	for _, g := range s.gs {
		select {
		case g.resume <- struct{}{}:
		default:
		}
	}
	s.wg.Wait()
}

// gosched implements runtime.Gosched / time.Sleep (spin-wait reduction).
// The goroutine yields; if no shared state changed since it last resumed
// (neither by itself nor by anybody else) re-running its loop body cannot
// observe anything new, so it stays disabled until some goroutine changes
// shared state (a store to non-local memory, a map/channel/lock/wait-group/
// atomic state change, a goroutine start or exit). If nobody can, the spin is
// a livelock and is reported like a deadlock.
func (fr *frame) gosched() {
	s := fr.p.sched
	g := fr.g
	if len(s.gs) == 1 {
		return
	}
	stamp := g.epochAtWake
	first := true
	fr.blockOn(func() bool {
		if first {
			// give the others a chance once
			first = false
			if len(s.othersEnabled(g)) > 0 {
				return false
			}
		}
		return s.visOps != stamp
	}, "gosched/spin")
	g.epochAtWake = s.visOps
}

// quiesce runs the other goroutines until none is enabled.
func (fr *frame) quiesce() {
	s := fr.p.sched
	for {
		others := s.othersEnabled(fr.g)
		if len(others) == 0 {
			return
		}
		var next *goroutine
		if !s.explore || len(others) == 1 {
			next = others[0]
		} else {
			next = others[s.p.choose("sched", len(others))]
		}
		// mark self runnable-but-yielding
		s.switchTo(fr.g, next)
	}
}

// ---------------------------------------------------------------- channels

type sendItem struct {
	val   value
	taken bool
}

type gchan struct {
	buf         []value
	cap         int
	closed      bool
	elem        types.Type
	sendq       []*sendItem
	recvWaiters int
}

func newChan(size int, elem types.Type) *gchan {
	return &gchan{cap: size, elem: elem}
}

func (c *gchan) canRecv() bool {
	return len(c.buf) > 0 || len(c.sendq) > 0 || c.closed
}

func (c *gchan) take() (value, bool) {
	if len(c.buf) > 0 {
		v := c.buf[0]
		c.buf = c.buf[1:]
		if len(c.sendq) > 0 {
			it := c.sendq[0]
			c.sendq = c.sendq[1:]
			it.taken = true
			c.buf = append(c.buf, it.val)
		}
		return v, true
	}
	if len(c.sendq) > 0 {
		it := c.sendq[0]
		c.sendq = c.sendq[1:]
		it.taken = true
		return it.val, true
	}
	return nil, false // closed
}

func (fr *frame) chanSend(c *gchan, v value) {
	fr.schedPoint("send")
	if c == nil {
		fr.blockOn(func() bool { return false }, "send on nil channel")
	}
	if c.closed {
		panic(targetPanic{v: iface{fr.i.runtimeErrorString, "send on closed channel"}, site: fr.site()})
	}
	fr.raceRelease(c, "send")
	if len(c.buf) < c.cap {
		c.buf = append(c.buf, v)
		fr.p.sched.visOps++
		fr.raceAcquire(c, "recv")
		return
	}
	it := &sendItem{val: v}
	c.sendq = append(c.sendq, it)
	fr.p.sched.visOps++
	fr.blockOn(func() bool { return it.taken || c.closed }, "chan send")
	if !it.taken && c.closed {
		panic(targetPanic{v: iface{fr.i.runtimeErrorString, "send on closed channel"}, site: fr.site()})
	}
	fr.raceAcquire(c, "recv")
}

func (fr *frame) chanRecv(instr *ssa.UnOp, x value) value {
	c := x.(*gchan)
	fr.schedPoint("recv")
	if c == nil {
		fr.blockOn(func() bool { return false }, "receive from nil channel")
	}
	c.recvWaiters++
	fr.blockOn(c.canRecv, "chan receive")
	c.recvWaiters--
	fr.raceRelease(c, "recv")
	v, ok := c.take()
	fr.raceAcquire(c, "send")
	fr.p.sched.visOps++
	if !ok {
		v = zero(instr.X.Type().Underlying().(*types.Chan).Elem())
	}
	if instr.CommaOk {
		return tuple{v, ok}
	}
	return v
}

func (fr *frame) chanClose(c *gchan) {
	fr.schedPoint("close")
	if c == nil {
		panic(targetPanic{v: iface{fr.i.runtimeErrorString, "close of nil channel"}, site: fr.site()})
	}
	if c.closed {
		panic(targetPanic{v: iface{fr.i.runtimeErrorString, "close of closed channel"}, site: fr.site()})
	}
	fr.raceRelease(c, "send")
	c.closed = true
	fr.p.sched.visOps++
}

func (fr *frame) chanLen(c *gchan) int {
	fr.schedPoint("chanlen")
	if c == nil {
		return 0
	}
	return len(c.buf)
}

func (fr *frame) selectStmt(instr *ssa.Select) value {
	fr.schedPoint("select")
	type cs struct {
		c    *gchan
		send bool
		val  value
	}
	cases := make([]cs, len(instr.States))
	for i, st := range instr.States {
		c, _ := fr.get(st.Chan).(*gchan)
		cases[i] = cs{c: c, send: st.Dir == types.SendOnly}
		if cases[i].send {
			cases[i].val = copyVal(fr.get(st.Send))
		}
	}
	ready := func() []int {
		var r []int
		for i, c := range cases {
			if c.c == nil {
				continue
			}
			if c.send {
				if c.c.closed || len(c.c.buf) < c.c.cap || c.c.recvWaiters > 0 {
					r = append(r, i)
				}
			} else if c.c.canRecv() {
				r = append(r, i)
			}
		}
		return r
	}
	rd := ready()
	if len(rd) == 0 {
		if !instr.Blocking {
			return fr.selectResult(instr, -1, nil, false)
		}
		for _, c := range cases {
			if c.c != nil && !c.send {
				c.c.recvWaiters++
			}
		}
		fr.blockOn(func() bool { return len(ready()) > 0 }, "select")
		for _, c := range cases {
			if c.c != nil && !c.send {
				c.c.recvWaiters--
			}
		}
		rd = ready()
	}
	chosen := rd[0]
	if len(rd) > 1 {
		chosen = rd[fr.p.choose("select", len(rd))]
	}
	c := cases[chosen]
	fr.p.sched.visOps++
	if c.send {
		fr.raceRelease(c.c, "send")
		fr.raceAcquire(c.c, "recv")
	} else {
		fr.raceRelease(c.c, "recv")
		fr.raceAcquire(c.c, "send")
	}
	if c.send {
		if c.c.closed {
			panic(targetPanic{v: iface{fr.i.runtimeErrorString, "send on closed channel"}, site: fr.site()})
		}
		if len(c.c.buf) < c.c.cap {
			c.c.buf = append(c.c.buf, c.val)
		} else {
			c.c.sendq = append(c.c.sendq, &sendItem{val: c.val})
		}
		return fr.selectResult(instr, chosen, nil, false)
	}
	v, ok := c.c.take()
	return fr.selectResult(instr, chosen, v, ok)
}

func (fr *frame) selectResult(instr *ssa.Select, chosen int, recv value, recvOk bool) value {
	r := tuple{chosen, recvOk}
	for i, st := range instr.States {
		if st.Dir == types.RecvOnly {
			var v value
			if i == chosen && recvOk {
				v = recv
			} else {
				v = zero(st.Chan.Type().Underlying().(*types.Chan).Elem())
			}
			r = append(r, v)
		}
	}
	return r
}

// ---------------------------------------------------------------- map races

func (fr *frame) mapRead(m *gmap) {
	s := fr.p.sched
	if !s.mapRaces || m == nil || len(s.gs) == 1 {
		return
	}
	fr.schedPoint("mapread")
	if m.writing != 0 && m.writing != fr.g.id+1 {
		fr.fatal("fatal error: concurrent map read and map write")
	}
}

func (fr *frame) mapWriteBegin(m *gmap) {
	s := fr.p.sched
	if !s.mapRaces || len(s.gs) == 1 {
		return
	}
	fr.schedPoint("mapwrite")
	if m.writing != 0 && m.writing != fr.g.id+1 {
		fr.fatal("fatal error: concurrent map writes")
	}
	m.writing = fr.g.id + 1
	fr.schedPoint("mapwrite2")
}

func (fr *frame) mapWriteEnd(m *gmap) {
	s := fr.p.sched
	if !s.mapRaces || len(s.gs) == 1 {
		return
	}
	if m.writing == fr.g.id+1 {
		m.writing = 0
	}
}
