package main

// reflect model (subset). A reflect.Value is kept in the target's own
// 3-field struct: [0] rtype{T} (or nil pointer when invalid), [1] *value
// cell holding the value (for addressable Values the cell IS the variable),
// [2] uintptr flags (1 = addressable/settable).

import (
	"fmt"
	"go/types"
	"reflect"
)

const rvSettable = uintptr(1)

func mkRV(t types.Type, cell *value, flags uintptr) value {
	return structure{rtype{t}, cell, flags}
}

func rvParts(v value) (types.Type, *value, uintptr, bool) {
	st := v.(structure)
	rt, ok := st[0].(rtype)
	if !ok {
		return nil, nil, 0, false
	}
	fl, _ := st[2].(uintptr)
	return rt.t, st[1].(*value), fl, true
}

func (fr *frame) rtypeIface(t types.Type) value {
	rp := fr.i.env.pkgs["reflect"]
	named := rp.Type("rtype").Object().Type()
	return iface{t: types.NewPointer(named), v: rtype{t}}
}

func rtOf(v value) types.Type {
	switch x := v.(type) {
	case rtype:
		return x.t
	case iface:
		return rtOf(x.v)
	}
	panic(unsupported(fmt.Sprintf("reflect.Type value %T", v)))
}

func (fr *frame) reflectPanic(msg string) {
	panic(targetPanic{v: iface{types.Typ[types.String], msg}, site: fr.site()})
}

func reflectKindOf(t types.Type) reflect.Kind {
	switch u := t.Underlying().(type) {
	case *types.Basic:
		switch u.Kind() {
		case types.Bool:
			return reflect.Bool
		case types.Int:
			return reflect.Int
		case types.Int8:
			return reflect.Int8
		case types.Int16:
			return reflect.Int16
		case types.Int32:
			return reflect.Int32
		case types.Int64:
			return reflect.Int64
		case types.Uint:
			return reflect.Uint
		case types.Uint8:
			return reflect.Uint8
		case types.Uint16:
			return reflect.Uint16
		case types.Uint32:
			return reflect.Uint32
		case types.Uint64:
			return reflect.Uint64
		case types.Uintptr:
			return reflect.Uintptr
		case types.Float32:
			return reflect.Float32
		case types.Float64:
			return reflect.Float64
		case types.String:
			return reflect.String
		case types.UnsafePointer:
			return reflect.UnsafePointer
		}
	case *types.Array:
		return reflect.Array
	case *types.Chan:
		return reflect.Chan
	case *types.Signature:
		return reflect.Func
	case *types.Interface:
		return reflect.Interface
	case *types.Map:
		return reflect.Map
	case *types.Pointer:
		return reflect.Ptr
	case *types.Slice:
		return reflect.Slice
	case *types.Struct:
		return reflect.Struct
	}
	return reflect.Invalid
}

func init() {
	for k, v := range map[string]externalFn{
		"reflect.ValueOf": func(fr *frame, a []value) value {
			it := a[0].(iface)
			if it.t == nil {
				return zero(fr.fn.Signature.Results().At(0).Type())
			}
			cell := new(value)
			*cell = copyVal(it.v)
			return mkRV(it.t, cell, 0)
		},
		"reflect.TypeOf": func(fr *frame, a []value) value {
			it := a[0].(iface)
			if it.t == nil {
				return iface{}
			}
			return fr.rtypeIface(it.t)
		},
		"reflect.Indirect": func(fr *frame, a []value) value {
			t, cell, _, ok := rvParts(a[0])
			if !ok {
				return a[0]
			}
			if pt, isPtr := t.Underlying().(*types.Pointer); isPtr {
				p := (*cell).(*value)
				if p == nil {
					return zero(fr.fn.Signature.Results().At(0).Type())
				}
				return mkRV(pt.Elem(), p, rvSettable)
			}
			return a[0]
		},
		"(reflect.Value).Elem": func(fr *frame, a []value) value {
			t, cell, _, ok := rvParts(a[0])
			if !ok {
				fr.reflectPanic("reflect: call of reflect.Value.Elem on zero Value")
			}
			switch u := t.Underlying().(type) {
			case *types.Pointer:
				p := (*cell).(*value)
				if p == nil {
					return zero(fr.fn.Signature.Results().At(0).Type())
				}
				return mkRV(u.Elem(), p, rvSettable)
			case *types.Interface:
				it := (*cell).(iface)
				if it.t == nil {
					return zero(fr.fn.Signature.Results().At(0).Type())
				}
				c := new(value)
				*c = copyVal(it.v)
				return mkRV(it.t, c, 0)
			}
			fr.reflectPanic("reflect: call of reflect.Value.Elem on " + t.String() + " Value")
			return nil
		},
		"(reflect.Value).NumField": func(fr *frame, a []value) value {
			t, _, _, ok := rvParts(a[0])
			if !ok {
				fr.reflectPanic("reflect: call of reflect.Value.NumField on zero Value")
			}
			st, isStruct := t.Underlying().(*types.Struct)
			if !isStruct {
				fr.reflectPanic("reflect: call of reflect.Value.NumField on " + t.String() + " Value")
			}
			return st.NumFields()
		},
		"(reflect.Value).Field": func(fr *frame, a []value) value {
			t, cell, fl, ok := rvParts(a[0])
			if !ok {
				fr.reflectPanic("reflect: call of reflect.Value.Field on zero Value")
			}
			st, isStruct := t.Underlying().(*types.Struct)
			if !isStruct {
				fr.reflectPanic("reflect: call of reflect.Value.Field on " + t.String() + " Value")
			}
			i := int(asInt64(a[1]))
			if i < 0 || i >= st.NumFields() {
				fr.reflectPanic("reflect: Field index out of range")
			}
			f := st.Field(i)
			nf := fl
			if !f.Exported() {
				nf = 0
			}
			return mkRV(f.Type(), &(*cell).(structure)[i], nf)
		},
		"(reflect.Value).FieldByName": func(fr *frame, a []value) value {
			t, cell, fl, ok := rvParts(a[0])
			if !ok {
				fr.reflectPanic("reflect: call of reflect.Value.FieldByName on zero Value")
			}
			st, isStruct := t.Underlying().(*types.Struct)
			if !isStruct {
				fr.reflectPanic("reflect: call of reflect.Value.FieldByName on " + t.String() + " Value")
			}
			name, isC := a[1].(string)
			if !isC {
				panic(unsupported("FieldByName with symbolic name"))
			}
			for i := 0; i < st.NumFields(); i++ {
				if st.Field(i).Name() == name {
					nf := fl
					if !st.Field(i).Exported() {
						nf = 0
					}
					return mkRV(st.Field(i).Type(), &(*cell).(structure)[i], nf)
				}
			}
			return zero(fr.fn.Signature.Results().At(0).Type())
		},
		"(reflect.Value).Type": func(fr *frame, a []value) value {
			t, _, _, ok := rvParts(a[0])
			if !ok {
				fr.reflectPanic("reflect: call of reflect.Value.Type on zero Value")
			}
			return fr.rtypeIface(t)
		},
		"(reflect.Value).Kind": func(fr *frame, a []value) value {
			t, _, _, ok := rvParts(a[0])
			if !ok {
				return uint(reflect.Invalid)
			}
			return uint(reflectKindOf(t))
		},
		"(reflect.Value).IsValid": func(fr *frame, a []value) value {
			_, _, _, ok := rvParts(a[0])
			return ok
		},
		"(reflect.Value).CanSet": func(fr *frame, a []value) value {
			_, _, fl, ok := rvParts(a[0])
			return ok && fl&rvSettable != 0
		},
		"(reflect.Value).CanAddr": func(fr *frame, a []value) value {
			_, _, fl, ok := rvParts(a[0])
			return ok && fl&rvSettable != 0
		},
		"(reflect.Value).CanInterface": func(fr *frame, a []value) value { return true },
		"(reflect.Value).IsNil": func(fr *frame, a []value) value {
			_, cell, _, ok := rvParts(a[0])
			if !ok {
				fr.reflectPanic("reflect: call of reflect.Value.IsNil on zero Value")
			}
			switch x := (*cell).(type) {
			case *value:
				return x == nil
			case iface:
				return x.t == nil
			case []value:
				return x == nil
			case *gmap:
				return x == nil
			case *gchan:
				return x == nil
			default:
				return isNilFunc(x)
			}
		},
		"(reflect.Value).Interface": func(fr *frame, a []value) value {
			t, cell, _, ok := rvParts(a[0])
			if !ok {
				fr.reflectPanic("reflect: call of reflect.Value.Interface on zero Value")
			}
			if _, isI := t.Underlying().(*types.Interface); isI {
				return (*cell).(iface)
			}
			return iface{t: t, v: copyVal(*cell)}
		},
		"(reflect.Value).String": func(fr *frame, a []value) value {
			t, cell, _, ok := rvParts(a[0])
			if !ok {
				return "<invalid Value>"
			}
			if isStrVal(*cell) {
				return *cell
			}
			return "<" + t.String() + " Value>"
		},
		"(reflect.Value).Int": func(fr *frame, a []value) value {
			_, cell, _, _ := rvParts(a[0])
			return asInt64(*cell)
		},
		"(reflect.Value).Bool": func(fr *frame, a []value) value {
			_, cell, _, _ := rvParts(a[0])
			return *cell
		},
		"(reflect.Value).Len": func(fr *frame, a []value) value {
			_, cell, _, _ := rvParts(a[0])
			switch x := (*cell).(type) {
			case []value:
				return len(x)
			case array:
				return len(x)
			case string, symstr:
				return strLen(x)
			case *gmap:
				return x.len()
			}
			panic(unsupported("reflect.Value.Len"))
		},
		"(reflect.Value).Set": func(fr *frame, a []value) value {
			t, cell, fl, ok := rvParts(a[0])
			if !ok {
				fr.reflectPanic("reflect: call of reflect.Value.Set on zero Value")
			}
			if fl&rvSettable == 0 {
				fr.reflectPanic("reflect: reflect.Value.Set using unaddressable value")
			}
			xt, xcell, _, xok := rvParts(a[1])
			if !xok {
				fr.reflectPanic("reflect: call of reflect.Value.Set on zero Value")
			}
			if _, isI := t.Underlying().(*types.Interface); isI {
				if _, xIsI := xt.Underlying().(*types.Interface); xIsI {
					*cell = *xcell
					return nil
				}
				if !types.AssignableTo(xt, t) {
					fr.reflectPanic("reflect.Set: value of type " + xt.String() + " is not assignable to type " + t.String())
				}
				*cell = iface{t: xt, v: copyVal(*xcell)}
				return nil
			}
			if !types.AssignableTo(xt, t) {
				fr.reflectPanic("reflect.Set: value of type " + xt.String() + " is not assignable to type " + t.String())
			}
			store(t, cell, copyVal(*xcell))
			return nil
		},
		"(reflect.Value).SetString": func(fr *frame, a []value) value {
			_, cell, fl, ok := rvParts(a[0])
			if !ok || fl&rvSettable == 0 {
				fr.reflectPanic("reflect: reflect.Value.SetString using unaddressable value")
			}
			*cell = a[1]
			return nil
		},
		"(reflect.Value).SetInt": func(fr *frame, a []value) value {
			t, cell, fl, ok := rvParts(a[0])
			if !ok || fl&rvSettable == 0 {
				fr.reflectPanic("reflect: reflect.Value.SetInt using unaddressable value")
			}
			*cell = convNumeric(t.Underlying().(*types.Basic).Kind(), a[1])
			return nil
		},
		"(reflect.Value).SetBool": func(fr *frame, a []value) value {
			_, cell, fl, ok := rvParts(a[0])
			if !ok || fl&rvSettable == 0 {
				fr.reflectPanic("reflect: reflect.Value.SetBool using unaddressable value")
			}
			*cell = a[1]
			return nil
		},
		"(*reflect.rtype).Field": func(fr *frame, a []value) value {
			t := rtOf(a[0])
			st, isStruct := t.Underlying().(*types.Struct)
			if !isStruct {
				fr.reflectPanic("reflect: Field of non-struct type " + t.String())
			}
			i := int(asInt64(a[1]))
			if i < 0 || i >= st.NumFields() {
				fr.reflectPanic("reflect: Field index out of bounds")
			}
			f := st.Field(i)
			pkgPath := ""
			if !f.Exported() && f.Pkg() != nil {
				pkgPath = f.Pkg().Path()
			}
			return structure{f.Name(), pkgPath, fr.rtypeIface(f.Type()), st.Tag(i), uintptr(0), []value{i}, f.Anonymous()}
		},
		"(*reflect.rtype).NumField": func(fr *frame, a []value) value {
			return rtOf(a[0]).Underlying().(*types.Struct).NumFields()
		},
		"(*reflect.rtype).Kind":   func(fr *frame, a []value) value { return uint(reflectKindOf(rtOf(a[0]))) },
		"(*reflect.rtype).String": func(fr *frame, a []value) value { return rtOf(a[0]).String() },
		"(*reflect.rtype).Name": func(fr *frame, a []value) value {
			if n, ok := rtOf(a[0]).(*types.Named); ok {
				return n.Obj().Name()
			}
			return ""
		},
		"(*reflect.rtype).Elem": func(fr *frame, a []value) value {
			switch u := rtOf(a[0]).Underlying().(type) {
			case *types.Pointer:
				return fr.rtypeIface(u.Elem())
			case *types.Slice:
				return fr.rtypeIface(u.Elem())
			case *types.Array:
				return fr.rtypeIface(u.Elem())
			case *types.Map:
				return fr.rtypeIface(u.Elem())
			case *types.Chan:
				return fr.rtypeIface(u.Elem())
			}
			fr.reflectPanic("reflect: Elem of invalid type")
			return nil
		},
		"(reflect.StructTag).Get": func(fr *frame, a []value) value {
			tag, ok1 := a[0].(string)
			key, ok2 := a[1].(string)
			if !ok1 || !ok2 {
				panic(unsupported("StructTag.Get with symbolic strings"))
			}
			return reflect.StructTag(tag).Get(key)
		},
		"(reflect.StructTag).Lookup": func(fr *frame, a []value) value {
			tag, ok1 := a[0].(string)
			key, ok2 := a[1].(string)
			if !ok1 || !ok2 {
				panic(unsupported("StructTag.Lookup with symbolic strings"))
			}
			v, ok := reflect.StructTag(tag).Lookup(key)
			return tuple{v, ok}
		},
	} {
		externals[k] = v
	}
}
