package main

// Env: the loaded program (shared, read-only across workers), overlay
// construction and package-initialisation policy.

import (
	"fmt"
	"go/types"
	"os"
	"path/filepath"
	"strings"
	"sync"

	"golang.org/x/tools/go/packages"
	"golang.org/x/tools/go/ssa"
	"golang.org/x/tools/go/ssa/ssautil"
)

// repoDir is the tree under check: /repo, or a scratch copy when
// GOSYM_REPO is set (used by tools/seedrun.sh so that seeded changes are
// never applied to /repo itself).
var repoDir = func() string {
	if d := os.Getenv("GOSYM_REPO"); d != "" {
		return d
	}
	return "/repo"
}()

const (
	modPath   = "github.com/goatcms/goatcore"
	ndPkgPath = modPath + "/zzverif/nd"
)

type HarnessFile struct {
	Src string `json:"src"` // path relative to the spec directory
	Pkg string `json:"pkg"` // package directory relative to /repo, e.g. "varutil"
}

type Env struct {
	prog     *ssa.Program
	pkgs     map[string]*ssa.Package // by import path
	sizes    types.Sizes
	overlay  map[string][]byte
	ovFiles  map[string]string // virtual path -> real path (for go test -overlay)
	buildMu  sync.Mutex
	rtErrStr types.Type
}

func verifDir() string {
	if d := os.Getenv("VERIF_DIR"); d != "" {
		return d
	}
	return "/verif"
}

// LoadEnv loads the target packages with harness files overlaid.
func LoadEnv(specDir string, files []HarnessFile, extraPkgs []string) (*Env, error) {
	env := &Env{pkgs: map[string]*ssa.Package{}, overlay: map[string][]byte{}, ovFiles: map[string]string{}}
	ndSrc := filepath.Join(verifDir(), "zz", "nd", "nd.go")
	data, err := os.ReadFile(ndSrc)
	if err != nil {
		return nil, err
	}
	ndVirt := filepath.Join(repoDir, "zzverif", "nd", "nd.go")
	env.overlay[ndVirt] = data
	env.ovFiles[ndVirt] = ndSrc
	patterns := map[string]bool{}
	for _, hf := range files {
		src := filepath.Join(specDir, hf.Src)
		data, err := os.ReadFile(src)
		if err != nil {
			return nil, err
		}
		virt := filepath.Join(repoDir, hf.Pkg, "zz_verif_"+filepath.Base(hf.Src))
		env.overlay[virt] = data
		env.ovFiles[virt] = src
		patterns["./"+hf.Pkg] = true
	}
	for _, p := range extraPkgs {
		patterns[p] = true
	}
	var pats []string
	for p := range patterns {
		pats = append(pats, p)
	}
	cfg := &packages.Config{
		Mode:       packages.LoadAllSyntax,
		Dir:        repoDir,
		BuildFlags: []string{"-tags=verif appengine"},
		Overlay:    env.overlay,
		Env:        append(os.Environ(), "GOFLAGS=-mod=mod", "GOPROXY=off", "GOSUMDB=off", "GOTOOLCHAIN=local"),
	}
	pkgs, err := packages.Load(cfg, pats...)
	if err != nil {
		return nil, err
	}
	nerr := 0
	packages.Visit(pkgs, nil, func(p *packages.Package) {
		for _, e := range p.Errors {
			fmt.Fprintln(os.Stderr, "load error:", e)
			nerr++
		}
	})
	if nerr > 0 {
		return nil, fmt.Errorf("%d package load errors", nerr)
	}
	prog, _ := ssautil.AllPackages(pkgs, ssa.InstantiateGenerics|ssa.SanityCheckFunctions&0)
	env.prog = prog
	for _, p := range prog.AllPackages() {
		env.pkgs[p.Pkg.Path()] = p
	}
	env.sizes = types.SizesFor("gc", "amd64")
	rt := env.pkgs["runtime"]
	if rt == nil {
		return nil, fmt.Errorf("runtime package not loaded")
	}
	env.rtErrStr = rt.Type("errorString").Object().Type()
	// Build everything up front (SSA building is not safe to do lazily from
	// several workers).
	prog.Build()
	return env, nil
}

// initAllowed says whether the package initialiser of pkg is executed.
func (e *Env) initAllowed(pkg *ssa.Package) bool {
	if pkg == nil {
		return false
	}
	return initPolicy(pkg.Pkg.Path()) != 0
}

// initPolicy: 0 = never initialised (globals unreadable), 1 = initialised per
// path, 2 = initialised once per worker and shared between paths (treated as
// immutable after init).
func initPolicy(path string) int {
	if strings.HasPrefix(path, modPath) {
		return 1
	}
	switch path {
	case "github.com/buger/jsonparser":
		return 1
	case "io", "io/fs", "strings", "bytes", "path", "sort", "strconv",
		"unicode/utf8", "encoding/binary", "bufio", "math/bits", "slices", "maps", "cmp",
		"internal/itoa", "internal/stringslite", "internal/oserror", "internal/byteorder", "html", "context":
		return 2
	}
	return 0
}

// globalReadable lists globals of non-initialised packages whose zero value
// is acceptable.
func globalReadable(g *ssa.Global) bool {
	if strings.HasPrefix(g.Name(), "init$") {
		return true
	}
	switch g.Pkg.Pkg.Path() {
	case "errors", "internal/bytealg", "internal/cpu", "sync", "sync/atomic", "internal/race", "unicode":
		return true
	}
	return false
}

func (i *interpreter) global(fr *frame, g *ssa.Global) *value {
	if c, ok := i.globals[g]; ok {
		return c
	}
	if g.Pkg.Pkg.Path() == "path/filepath" && (g.Name() == "SkipDir" || g.Name() == "SkipAll") {
		// filepath.SkipDir is io/fs.SkipDir (path/filepath itself is not initialised)
		if fsPkg := i.env.pkgs["io/fs"]; fsPkg != nil {
			if fg, ok := fsPkg.Members[g.Name()].(*ssa.Global); ok {
				return i.global(fr, fg)
			}
		}
	}
	pol := initPolicy(g.Pkg.Pkg.Path())
	if pol == 2 {
		w := fr.p.w
		if c, ok := w.sharedGlobals[g]; ok {
			return c
		}
		z := zero(deref(g.Type()))
		c := &z
		w.sharedGlobals[g] = c
		return c
	}
	if sv, ok := i.specialGlobal(g); ok {
		c := &sv
		i.globals[g] = c
		return c
	}
	if pol == 0 && !globalReadable(g) {
		panic(unsupported("read of global of uninitialised package: " + g.String()))
	}
	z := zero(deref(g.Type()))
	c := &z
	i.globals[g] = c
	return c
}
