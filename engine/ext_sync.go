package main

// Models of sync primitives (state kept in the primitive's own struct fields
// so that copying a struct copies the state, as in Go) and of sync/atomic.

import (
	"fmt"
	"go/types"
	"strings"
)

func init() {
	for k, v := range map[string]externalFn{
		"(*sync.Mutex).Lock":      extMutexLock,
		"(*sync.Mutex).Unlock":    extMutexUnlock,
		"(*sync.Mutex).TryLock":   extMutexTryLock,
		"(*sync.RWMutex).Lock":    extRWLock,
		"(*sync.RWMutex).Unlock":  extRWUnlock,
		"(*sync.RWMutex).RLock":   extRWRLock,
		"(*sync.RWMutex).RUnlock": extRWRUnlock,
		"(*sync.WaitGroup).Add":   extWGAdd,
		"(*sync.WaitGroup).Done":  func(fr *frame, a []value) value { return extWGAdd(fr, []value{a[0], -1}) },
		"(*sync.WaitGroup).Wait":  extWGWait,
		"(*sync.Once).doSlow":     nil,
	} {
		if v != nil {
			externals[k] = v
		}
	}
	for _, ty := range []string{"Int32", "Int64", "Uint32", "Uint64", "Uintptr", "Pointer"} {
		ty := ty
		externals["sync/atomic.Load"+ty] = func(fr *frame, a []value) value {
			fr.schedPoint("atomic")
			fr.raceAcquire(a[0].(*value), "atomic")
			return *a[0].(*value)
		}
		externals["sync/atomic.Store"+ty] = func(fr *frame, a []value) value {
			fr.schedPoint("atomic")
			fr.p.sched.visOps++
			fr.raceAcquire(a[0].(*value), "atomic")
			fr.raceRelease(a[0].(*value), "atomic")
			*a[0].(*value) = a[1]
			return nil
		}
		externals["sync/atomic.Swap"+ty] = func(fr *frame, a []value) value {
			fr.schedPoint("atomic")
			fr.p.sched.visOps++
			fr.raceAcquire(a[0].(*value), "atomic")
			fr.raceRelease(a[0].(*value), "atomic")
			old := *a[0].(*value)
			*a[0].(*value) = a[1]
			return old
		}
		externals["sync/atomic.CompareAndSwap"+ty] = func(fr *frame, a []value) value {
			fr.schedPoint("atomic")
			p := a[0].(*value)
			fr.raceAcquire(p, "atomic")
			fr.raceRelease(p, "atomic")
			if fr.p.truth(fr.p.eqv(*p, a[1])) {
				*p = a[2]
				fr.p.sched.visOps++
				return true
			}
			return false
		}
		if ty != "Pointer" {
			externals["sync/atomic.Add"+ty] = func(fr *frame, a []value) value {
				fr.schedPoint("atomic")
				p := a[0].(*value)
				fr.raceAcquire(p, "atomic")
				fr.raceRelease(p, "atomic")
				xb, _, _, ok1 := concBits(*p)
				yb, _, _, ok2 := concBits(a[1])
				if !ok1 || !ok2 {
					panic(unsupported("atomic.Add on symbolic value"))
				}
				*p = retype(*p, xb+yb)
				fr.p.sched.visOps++
				return *p
			}
		}
	}
}

// fieldOf returns the address of the named field of the struct pointed to
// by recv (whose static type is ptrType's element).
func fieldOf(recv *value, structType types.Type, path ...string) *value {
	cur := recv
	t := structType
	for _, name := range path {
		st := t.Underlying().(*types.Struct)
		found := false
		for i := 0; i < st.NumFields(); i++ {
			if st.Field(i).Name() == name {
				cur = &(*cur).(structure)[i]
				t = st.Field(i).Type()
				found = true
				break
			}
		}
		if !found {
			panic(fmt.Sprintf("fieldOf: no field %s in %s", name, t))
		}
	}
	return cur
}

func (fr *frame) recvStruct() types.Type {
	return deref(fr.fn.Signature.Recv().Type())
}

func nilCheck(fr *frame, p *value) {
	if p == nil {
		fr.rtPanic("invalid memory address or nil pointer dereference")
	}
}

func extMutexLock(fr *frame, a []value) value {
	m := a[0].(*value)
	nilCheck(fr, m)
	st := fieldOf(m, fr.recvStruct(), "state")
	fr.schedPoint("lock")
	fr.blockOn(func() bool { return (*st).(int32) == 0 }, "Mutex.Lock")
	*st = int32(1)
	fr.p.sched.visOps++
	fr.raceAcquire(m, "w")
	return nil
}

func extMutexTryLock(fr *frame, a []value) value {
	m := a[0].(*value)
	nilCheck(fr, m)
	st := fieldOf(m, fr.recvStruct(), "state")
	fr.schedPoint("trylock")
	if (*st).(int32) == 0 {
		*st = int32(1)
		fr.raceAcquire(m, "w")
		return true
	}
	return false
}

func extMutexUnlock(fr *frame, a []value) value {
	m := a[0].(*value)
	nilCheck(fr, m)
	st := fieldOf(m, fr.recvStruct(), "state")
	fr.schedPoint("unlock")
	if (*st).(int32) == 0 {
		fr.fatal("fatal error: sync: unlock of unlocked mutex")
	}
	fr.raceRelease(m, "w")
	*st = int32(0)
	fr.p.sched.visOps++
	return nil
}

// RWMutex state: w.state = writer holds (1); writerSem = pending writers;
// readerCount.v = active readers.
func rwFields(fr *frame, m *value) (w, pend, readers *value) {
	t := fr.recvStruct()
	return fieldOf(m, t, "w", "state"), fieldOf(m, t, "writerSem"), fieldOf(m, t, "readerCount", "v")
}

func extRWLock(fr *frame, a []value) value {
	m := a[0].(*value)
	nilCheck(fr, m)
	w, pend, readers := rwFields(fr, m)
	fr.schedPoint("rwlock")
	*pend = (*pend).(uint32) + 1
	fr.blockOn(func() bool { return (*w).(int32) == 0 && (*readers).(int32) == 0 }, "RWMutex.Lock")
	*pend = (*pend).(uint32) - 1
	*w = int32(1)
	fr.p.sched.visOps++
	fr.raceAcquire(m, "w")
	fr.raceAcquire(m, "r")
	return nil
}

func extRWUnlock(fr *frame, a []value) value {
	m := a[0].(*value)
	nilCheck(fr, m)
	w, _, _ := rwFields(fr, m)
	fr.schedPoint("rwunlock")
	if (*w).(int32) == 0 {
		fr.fatal("fatal error: sync: Unlock of unlocked RWMutex")
	}
	fr.raceRelease(m, "w")
	*w = int32(0)
	fr.p.sched.visOps++
	return nil
}

func extRWRLock(fr *frame, a []value) value {
	m := a[0].(*value)
	nilCheck(fr, m)
	w, pend, readers := rwFields(fr, m)
	fr.schedPoint("rlock")
	// writer preference: a pending writer blocks new readers
	fr.blockOn(func() bool { return (*w).(int32) == 0 && (*pend).(uint32) == 0 }, "RWMutex.RLock")
	*readers = (*readers).(int32) + 1
	fr.raceAcquire(m, "w")
	return nil
}

func extRWRUnlock(fr *frame, a []value) value {
	m := a[0].(*value)
	nilCheck(fr, m)
	_, _, readers := rwFields(fr, m)
	fr.schedPoint("runlock")
	if (*readers).(int32) <= 0 {
		fr.fatal("fatal error: sync: RUnlock of unlocked RWMutex")
	}
	fr.raceRelease(m, "r")
	*readers = (*readers).(int32) - 1
	return nil
}

func extWGAdd(fr *frame, a []value) value {
	m := a[0].(*value)
	nilCheck(fr, m)
	var recvT types.Type
	// Done is routed here with fr.fn = Done; both have the same receiver
	recvT = fr.recvStruct()
	st := fieldOf(m, recvT, "state", "v")
	fr.schedPoint("wg.add")
	delta := asInt64(a[1])
	cur := int64((*st).(uint64)) + delta
	if cur < 0 {
		panic(targetPanic{v: iface{types.Typ[types.String], "sync: negative WaitGroup counter"}, site: fr.site()})
	}
	*st = uint64(cur)
	fr.p.sched.visOps++
	if delta < 0 {
		fr.raceRelease(m, "wg")
	}
	return nil
}

func extWGWait(fr *frame, a []value) value {
	m := a[0].(*value)
	nilCheck(fr, m)
	st := fieldOf(m, fr.recvStruct(), "state", "v")
	fr.schedPoint("wg.wait")
	fr.blockOn(func() bool { return (*st).(uint64) == 0 }, "WaitGroup.Wait")
	fr.raceAcquire(m, "wg")
	return nil
}

var _ = strings.Contains
