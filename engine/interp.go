package main

// SSA interpreter core. Derived from x/tools/go/ssa/interp (BSD licence).

import (
	"fmt"
	"go/token"
	"go/types"
	"runtime"
	"strings"
	"unicode/utf8"

	"golang.org/x/tools/go/ssa"
)

type continuation int

const (
	kNext continuation = iota
	kReturn
	kJump
)

// interpreter: per-path global state (globals, init status).
type interpreter struct {
	prog               *ssa.Program
	globals            map[*ssa.Global]*value
	inited             map[*ssa.Package]bool
	runtimeErrorString types.Type
	sizes              types.Sizes
	env                *Env
}

type deferred struct {
	fn    value
	args  []value
	instr *ssa.Defer
	tail  *deferred
}

type frame struct {
	i                *interpreter
	p                *Path
	g                *goroutine
	caller           *frame
	fn               *ssa.Function
	block, prevBlock *ssa.BasicBlock
	env              map[ssa.Value]value
	locals           []value
	defers           *deferred
	result           value
	panicking        bool
	panic            interface{}
	phitemps         []value
	curInstr         ssa.Instruction
	backEdges        int
}

func (fr *frame) site() string {
	f := fr
	for f != nil {
		if f.curInstr != nil && f.curInstr.Pos() != token.NoPos {
			pos := f.i.prog.Fset.Position(f.curInstr.Pos())
			return shortPos(pos.Filename, pos.Line)
		}
		f = f.caller
	}
	return "?"
}

func shortPos(file string, line int) string {
	file = strings.TrimPrefix(file, repoDir+"/")
	if i := strings.Index(file, "/pkg/mod/"); i >= 0 {
		file = file[i+len("/pkg/mod/"):]
	}
	if i := strings.Index(file, "/go/src/"); i >= 0 {
		file = "go:" + file[i+len("/go/src/"):]
	}
	return fmt.Sprintf("%s:%d", file, line)
}

// stack returns a short call stack (innermost first) restricted to positions
// with source info.
func (fr *frame) stack(max int) []string {
	var out []string
	for f := fr; f != nil && len(out) < max; f = f.caller {
		name := f.fn.String()
		loc := ""
		if f.curInstr != nil && f.curInstr.Pos() != token.NoPos {
			pos := f.i.prog.Fset.Position(f.curInstr.Pos())
			loc = " " + shortPos(pos.Filename, pos.Line)
		}
		out = append(out, name+loc)
	}
	return out
}

func (fr *frame) get(key ssa.Value) value {
	switch key := key.(type) {
	case nil:
		return nil
	case *ssa.Function, *ssa.Builtin:
		return key
	case *ssa.Const:
		return constValue(key)
	case *ssa.Global:
		return fr.i.global(fr, key)
	}
	if r, ok := fr.env[key]; ok {
		return r
	}
	panic(fmt.Sprintf("get: no value for %T: %v", key, key.Name()))
}

func (fr *frame) runDefer(d *deferred) {
	var ok bool
	defer func() {
		if !ok {
			r := recover()
			if ap, isAbort := r.(abortPath); isAbort {
				panic(ap)
			}
			if isEngineError(r) {
				panic(r)
			}
			fr.panicking = true
			fr.panic = r
		}
	}()
	fr.call(d.instr.Pos(), d.fn, d.args, nil)
	ok = true
}

func isEngineError(r interface{}) bool {
	switch r.(type) {
	case targetPanic:
		return false
	case abortPath:
		return false
	}
	return true
}

func (fr *frame) runDefers() {
	for d := fr.defers; d != nil; d = d.tail {
		fr.runDefer(d)
	}
	fr.defers = nil
	if fr.panicking {
		panic(fr.panic)
	}
}

func (fr *frame) lookupMethod(typ types.Type, meth *types.Func) *ssa.Function {
	return fr.i.prog.LookupMethod(typ, meth.Pkg(), meth.Name())
}

func (fr *frame) visitInstr(instr ssa.Instruction) continuation {
	switch instr := instr.(type) {
	case *ssa.DebugRef:

	case *ssa.UnOp:
		fr.env[instr] = fr.unop(instr, fr.get(instr.X))

	case *ssa.BinOp:
		fr.env[instr] = fr.binop(instr.Op, instr.X.Type(), instr.Y.Type(), fr.get(instr.X), fr.get(instr.Y))

	case *ssa.Call:
		fn, args := fr.prepareCall(&instr.Call)
		fr.env[instr] = fr.call(instr.Pos(), fn, args, instr.Type())

	case *ssa.ChangeInterface:
		fr.env[instr] = fr.get(instr.X)

	case *ssa.ChangeType:
		fr.env[instr] = fr.get(instr.X)

	case *ssa.Convert:
		fr.env[instr] = fr.conv(instr.Type(), instr.X.Type(), fr.get(instr.X))

	case *ssa.SliceToArrayPointer:
		panic(unsupported("SliceToArrayPointer"))

	case *ssa.MakeInterface:
		fr.env[instr] = iface{t: instr.X.Type(), v: copyVal(fr.get(instr.X))}

	case *ssa.Extract:
		fr.env[instr] = fr.get(instr.Tuple).(tuple)[instr.Index]

	case *ssa.Slice:
		fr.env[instr] = fr.slice(fr.get(instr.X), fr.get(instr.Low), fr.get(instr.High), fr.get(instr.Max))

	case *ssa.Return:
		switch len(instr.Results) {
		case 0:
		case 1:
			fr.result = fr.get(instr.Results[0])
		default:
			var res []value
			for _, r := range instr.Results {
				res = append(res, fr.get(r))
			}
			fr.result = tuple(res)
		}
		fr.block = nil
		return kReturn

	case *ssa.RunDefers:
		fr.runDefers()

	case *ssa.Panic:
		panic(targetPanic{v: fr.get(instr.X), site: fr.site()})

	case *ssa.Send:
		fr.chanSend(fr.get(instr.Chan).(*gchan), copyVal(fr.get(instr.X)))

	case *ssa.Store:
		addr := fr.get(instr.Addr).(*value)
		if addr == nil {
			fr.rtPanic("invalid memory address or nil pointer dereference")
		}
		fr.raceWrite(instr.Addr, addr)
		store(deref(instr.Addr.Type()), addr, fr.get(instr.Val))
		if len(fr.p.sched.gs) > 1 {
			if a, ok := instr.Addr.(*ssa.Alloc); !ok || a.Heap {
				fr.p.sched.visOps++ // shared-state epoch (see gosched)
			}
		}

	case *ssa.If:
		succ := 1
		c := fr.get(instr.Cond)
		switch c := c.(type) {
		case bool:
			if c {
				succ = 0
			}
		case *Term:
			if fr.p.decide(c) {
				succ = 0
			}
		default:
			panic(fmt.Sprintf("If: bad cond %T", c))
		}
		fr.jump(fr.block.Succs[succ])
		return kJump

	case *ssa.Jump:
		fr.jump(fr.block.Succs[0])
		return kJump

	case *ssa.Defer:
		fn, args := fr.prepareCall(&instr.Call)
		defers := &fr.defers
		if into := fr.get(instr.DeferStack); into != nil {
			defers = into.(**deferred)
		}
		*defers = &deferred{fn: fn, args: args, instr: instr, tail: *defers}

	case *ssa.Go:
		fn, args := fr.prepareCall(&instr.Call)
		fr.spawn(instr, fn, args)

	case *ssa.MakeChan:
		fr.env[instr] = newChan(int(fr.p.asIntC(fr.get(instr.Size))), instr.Type().Underlying().(*types.Chan).Elem())

	case *ssa.Alloc:
		var addr *value
		if instr.Heap {
			addr = new(value)
			fr.env[instr] = addr
		} else {
			addr = fr.env[instr].(*value)
		}
		*addr = zero(deref(instr.Type()))

	case *ssa.MakeSlice:
		n := fr.p.asIntC(fr.get(instr.Len))
		c := fr.p.asIntC(fr.get(instr.Cap))
		if n < 0 || c < n || c > 1<<26 {
			fr.rtPanic("makeslice: len out of range")
		}
		slice := make([]value, c)
		tElt := instr.Type().Underlying().(*types.Slice).Elem()
		z := zero(tElt)
		switch z.(type) {
		case structure, array:
			for i := range slice {
				slice[i] = zero(tElt)
			}
		default:
			for i := range slice {
				slice[i] = z
			}
		}
		fr.env[instr] = slice[:n]

	case *ssa.MakeMap:
		fr.env[instr] = newMap(instr.Type().Underlying().(*types.Map).Key())

	case *ssa.Range:
		fr.env[instr] = fr.rangeIter(fr.get(instr.X), instr.X.Type())

	case *ssa.Next:
		fr.env[instr] = fr.get(instr.Iter).(iter).next(fr)

	case *ssa.FieldAddr:
		x := fr.get(instr.X).(*value)
		if x == nil {
			fr.rtPanic("invalid memory address or nil pointer dereference")
		}
		fr.env[instr] = &(*x).(structure)[instr.Field]

	case *ssa.Field:
		fr.env[instr] = copyVal(fr.get(instr.X).(structure)[instr.Field])

	case *ssa.IndexAddr:
		x := fr.get(instr.X)
		idx := fr.widenIndex(fr.get(instr.Index), instr.Index.Type())
		switch x := x.(type) {
		case []value:
			i := fr.checkIndex(idx, len(x))
			fr.env[instr] = &x[i]
		case *value:
			if x == nil {
				fr.rtPanic("invalid memory address or nil pointer dereference")
			}
			a := (*x).(array)
			i := fr.checkIndex(idx, len(a))
			fr.env[instr] = &a[i]
		default:
			panic(fmt.Sprintf("unexpected x type in IndexAddr: %T", x))
		}

	case *ssa.Index:
		x := fr.get(instr.X)
		idx := fr.widenIndex(fr.get(instr.Index), instr.Index.Type())
		switch x := x.(type) {
		case array:
			i := fr.checkIndex(idx, len(x))
			fr.env[instr] = copyVal(x[i])
		case string, symstr:
			fr.env[instr] = fr.strIndex(x, idx)
		default:
			panic(fmt.Sprintf("unexpected x type in Index: %T", x))
		}

	case *ssa.Lookup:
		fr.env[instr] = fr.lookup(instr, fr.get(instr.X), fr.get(instr.Index))

	case *ssa.MapUpdate:
		m := fr.get(instr.Map).(*gmap)
		if m == nil {
			panic(targetPanic{v: iface{fr.i.runtimeErrorString, "assignment to entry in nil map"}, site: fr.site()})
		}
		key := copyVal(fr.get(instr.Key))
		v := copyVal(fr.get(instr.Value))
		fr.mapWriteBegin(m)
		m.insert(fr, key, v)
		fr.mapWriteEnd(m)
		fr.p.sched.visOps++

	case *ssa.TypeAssert:
		fr.env[instr] = fr.typeAssert(instr, fr.get(instr.X).(iface))

	case *ssa.MakeClosure:
		var bindings []value
		for _, binding := range instr.Bindings {
			bindings = append(bindings, fr.get(binding))
		}
		fr.env[instr] = &closure{instr.Fn.(*ssa.Function), bindings}

	case *ssa.Phi:
		panic("unreachable: phi")

	case *ssa.Select:
		fr.env[instr] = fr.selectStmt(instr)

	default:
		panic(unsupported(fmt.Sprintf("instruction: %T", instr)))
	}
	return kNext
}

func (fr *frame) jump(to *ssa.BasicBlock) {
	if to.Index <= fr.block.Index {
		fr.backEdges++
		if fr.backEdges > fr.p.unwind {
			panic(abortPath{"unwind", fmt.Sprintf("loop bound %d exceeded in %s", fr.p.unwind, fr.fn)})
		}
	}
	fr.prevBlock, fr.block = fr.block, to
}

// widenIndex extends a symbolic index of a narrow integer type to 64 bits
// according to its signedness, so that the range check "idx <u len" is exact
// (a uint8 index into a [256]T array is always in range; a negative int8
// index never is).
func (fr *frame) widenIndex(idx value, t types.Type) value {
	tm, ok := idx.(*Term)
	if !ok || tm.Width() >= 64 {
		return idx
	}
	if b, ok := t.Underlying().(*types.Basic); ok && b.Info()&types.IsUnsigned != 0 {
		return fr.p.tt.ZExt(tm, 64)
	}
	return fr.p.tt.SExt(tm, 64)
}

// strIndex implements s[i] on strings.
func (fr *frame) strIndex(s value, idx value) value {
	n := strLen(s)
	if t, ok := idx.(*Term); ok {
		p := fr.p
		inr := p.tt.Cmp(OpUlt, t, p.tt.BV(uint64(n), t.Width()))
		if !p.decide(inr) {
			fr.rtPanic(fmt.Sprintf("index out of range [sym] with length %d", n))
		}
		// ite chain
		var acc *Term = p.toTerm(strAt(s, n-1))
		for i := n - 2; i >= 0; i-- {
			acc = p.tt.Ite(p.tt.Eq(t, p.tt.BV(uint64(i), t.Width())), p.toTerm(strAt(s, i)), acc)
		}
		return fromTerm(acc, types.Typ[types.Uint8])
	}
	i := asInt64(idx)
	if i < 0 || i >= int64(n) {
		fr.rtPanic(fmt.Sprintf("index out of range [%d] with length %d", i, n))
	}
	return strAt(s, int(i))
}

func (fr *frame) lookup(instr *ssa.Lookup, x, idx value) value {
	m, ok := x.(*gmap)
	if !ok {
		panic(fmt.Sprintf("unexpected x type in Lookup: %T", x))
	}
	fr.mapRead(m)
	v, found := m.lookup(fr, idx)
	if !found {
		v = zero(instr.X.Type().Underlying().(*types.Map).Elem())
	} else {
		v = copyVal(v)
	}
	if instr.CommaOk {
		return tuple{v, found}
	}
	return v
}

func (fr *frame) prepareCall(call *ssa.CallCommon) (fn value, args []value) {
	v := fr.get(call.Value)
	if call.Method == nil {
		fn = v
	} else {
		recv := v.(iface)
		if recv.t == nil {
			fr.rtPanic("invalid memory address or nil pointer dereference")
		}
		f := fr.lookupMethod(recv.t, call.Method)
		if f == nil {
			panic(fmt.Sprintf("method set for dynamic type %v does not contain %s", recv.t, call.Method))
		}
		fn = f
		args = append(args, recv.v)
	}
	for _, arg := range call.Args {
		args = append(args, fr.get(arg))
	}
	return
}

func (fr *frame) call(callpos token.Pos, fn value, args []value, resType types.Type) value {
	switch fn := fn.(type) {
	case *ssa.Function:
		if fn == nil {
			fr.rtPanic("invalid memory address or nil pointer dereference")
		}
		return fr.callSSA(callpos, fn, args, nil)
	case *closure:
		if fn == nil {
			fr.rtPanic("invalid memory address or nil pointer dereference")
		}
		return fr.callSSA(callpos, fn.Fn, args, fn.Env)
	case *ssa.Builtin:
		return fr.callBuiltin(callpos, fn, args, resType)
	}
	panic(fmt.Sprintf("cannot call %T", fn))
}

func (caller *frame) callSSA(callpos token.Pos, fn *ssa.Function, args []value, env []value) value {
	fr := &frame{
		i:      caller.i,
		p:      caller.p,
		g:      caller.g,
		caller: caller,
		fn:     fn,
	}
	p := fr.p
	if fn.Parent() == nil {
		name := fn.String()
		if ext := externals[name]; ext != nil {
			p.stubs[name] = true
			return ext(fr, args)
		}
		if fn.Synthetic == "package initializer" {
			if !fr.i.env.initAllowed(fn.Pkg) {
				return nil
			}
		}
		if fn.Blocks == nil {
			if fn.Pkg != nil {
				fn.Pkg.Build()
			}
			if fn.Blocks == nil {
				panic(unsupported("no code for function: " + name))
			}
		}
	}
	if fn.TypeParams().Len() > 0 && len(fn.TypeArgs()) == 0 {
		panic(unsupported("uninstantiated generic: " + fn.String()))
	}
	if depth := caller.depth(); depth > p.maxDepth {
		panic(abortPath{"budget", fmt.Sprintf("call depth > %d in %s", p.maxDepth, fn)})
	}
	p.funcs[fnKey(fn)]++
	fr.env = make(map[ssa.Value]value, 16)
	fr.block = fn.Blocks[0]
	fr.locals = make([]value, len(fn.Locals))
	for i, l := range fn.Locals {
		fr.locals[i] = zero(deref(l.Type()))
		fr.env[l] = &fr.locals[i]
	}
	for i, prm := range fn.Params {
		fr.env[prm] = args[i]
	}
	for i, fv := range fn.FreeVars {
		fr.env[fv] = env[i]
	}
	for fr.block != nil {
		fr.runFrame()
	}
	return fr.result
}

func fnKey(fn *ssa.Function) string {
	return fn.String()
}

func (fr *frame) depth() int {
	d := 0
	for f := fr; f != nil; f = f.caller {
		d++
	}
	return d
}

func (fr *frame) runFrame() {
	defer func() {
		if fr.block == nil {
			return // normal return
		}
		r := recover()
		switch r := r.(type) {
		case abortPath:
			if r.kind != "halt" && r.kind != "killed" && r.kind != "infeasible" && !strings.Contains(r.msg, "TARGET STACK") {
				r.msg += "\nTARGET STACK: " + strings.Join(fr.stack(14), " <- ")
			}
			panic(r)
		case targetPanic:
			fr.panicking = true
			fr.panic = r
		case runtime.Error:
			// a host runtime error inside the engine: engine bug (target
			// runtime errors are raised explicitly via rtPanic)
			panic(abortPath{"engine", fmt.Sprintf("%v at %s\nTARGET STACK: %s\n%s", r, fr.site(), strings.Join(fr.stack(14), " <- "), hostStack())})
		default:
			panic(abortPath{"engine", fmt.Sprintf("%v at %s\n%s", r, fr.site(), hostStack())})
		}
		fr.runDefers()
		fr.block = fr.fn.Recover
	}()

	p := fr.p
	for {
		nonPhis := fr.executePhis()
		for _, instr := range nonPhis {
			p.steps++
			if p.steps > p.maxSteps {
				panic(abortPath{"budget", fmt.Sprintf("step budget %d exhausted in %s", p.maxSteps, fr.fn)})
			}
			fr.curInstr = instr
			if fr.visitInstr(instr) == kReturn {
				return
			}
		}
	}
}

func hostStack() string {
	buf := make([]byte, 4096)
	n := runtime.Stack(buf, false)
	return string(buf[:n])
}

func (fr *frame) executePhis() []ssa.Instruction {
	firstNonPhi := -1
	for i, instr := range fr.block.Instrs {
		if _, ok := instr.(*ssa.Phi); !ok {
			firstNonPhi = i
			break
		}
	}
	nonPhis := fr.block.Instrs[firstNonPhi:]
	if firstNonPhi > 0 {
		phis := fr.block.Instrs[:firstNonPhi]
		predIndex := -1
		for i, b := range fr.block.Preds {
			if b == fr.prevBlock {
				predIndex = i
				break
			}
		}
		fr.phitemps = fr.phitemps[:0]
		for _, phi := range phis {
			phi := phi.(*ssa.Phi)
			fr.phitemps = append(fr.phitemps, fr.get(phi.Edges[predIndex]))
		}
		for i, phi := range phis {
			fr.env[phi.(*ssa.Phi)] = fr.phitemps[i]
		}
	}
	return nonPhis
}

func doRecover(caller *frame) value {
	// caller is the frame of the deferred function calling recover().
	if caller != nil && !caller.panicking &&
		caller.caller != nil && caller.caller.panicking {
		caller.caller.panicking = false
		p := caller.caller.panic
		caller.caller.panic = nil
		switch p := p.(type) {
		case targetPanic:
			return p.v
		default:
			panic(fmt.Sprintf("unexpected panic type %T in target call to recover()", p))
		}
	}
	return iface{}
}

// ---------------------------------------------------------------- range

type stringIter struct {
	s value
	i int
}

func (it *stringIter) next(fr *frame) tuple {
	n := strLen(it.s)
	if it.i >= n {
		return tuple{false, nil, nil}
	}
	if s, ok := it.s.(string); ok {
		r, w := utf8.DecodeRuneInString(s[it.i:])
		idx := it.i
		it.i += w
		return tuple{true, idx, r}
	}
	// symbolic: decode with forks
	idx := it.i
	r, w := fr.decodeRune(it.s, it.i)
	it.i += w
	return tuple{true, idx, r}
}

// decodeRune decodes one rune at position i of a (possibly symbolic) string.
// ASCII bytes are handled symbolically; for a byte >= 0x80 the continuation
// structure is decided by forks, and the rune value is built as a term.
func (fr *frame) decodeRune(s value, i int) (value, int) {
	p := fr.p
	tt := p.tt
	b0 := strAt(s, i)
	t0, sym := b0.(*Term)
	if !sym {
		c := b0.(uint8)
		if c < 0x80 {
			return int32(c), 1
		}
		t0 = tt.BV(uint64(c), 8)
	}
	c8 := func(v uint64) *Term { return tt.BV(v, 8) }
	if p.decide(tt.Cmp(OpUlt, t0, c8(0x80))) {
		return fromTerm(tt.ZExt(t0, 32), types.Typ[types.Int32]), 1
	}
	n := strLen(s)
	cont := func(j int) (*Term, bool) {
		if j >= n {
			return nil, false
		}
		t := p.toTerm(strAt(s, j))
		ok := p.decide(tt.Eq(tt.BvBin(OpBvAnd, t, c8(0xC0)), c8(0x80)))
		return t, ok
	}
	z32 := func(t *Term) *Term { return tt.ZExt(t, 32) }
	and := func(t *Term, k uint64) *Term { return tt.BvBin(OpBvAnd, t, tt.BV(k, 32)) }
	shl := func(t *Term, k uint64) *Term { return tt.BvBin(OpBvShl, t, tt.BV(k, 32)) }
	or := func(a, b *Term) *Term { return tt.BvBin(OpBvOr, a, b) }
	bad := func() (value, int) { return int32(0xFFFD), 1 }
	// 2-byte: C2..DF
	if p.decide(tt.And(tt.Cmp(OpUle, c8(0xC2), t0), tt.Cmp(OpUle, t0, c8(0xDF)))) {
		t1, ok := cont(i + 1)
		if !ok {
			return bad()
		}
		r := or(shl(and(z32(t0), 0x1F), 6), and(z32(t1), 0x3F))
		return fromTerm(r, types.Typ[types.Int32]), 2
	}
	// 3-byte: E0..EF
	if p.decide(tt.And(tt.Cmp(OpUle, c8(0xE0), t0), tt.Cmp(OpUle, t0, c8(0xEF)))) {
		t1, ok := cont(i + 1)
		if !ok {
			return bad()
		}
		t2, ok := cont(i + 2)
		if !ok {
			return bad()
		}
		r := or(or(shl(and(z32(t0), 0x0F), 12), shl(and(z32(t1), 0x3F), 6)), and(z32(t2), 0x3F))
		// overlong / surrogate checks
		okr := tt.And(tt.Cmp(OpUle, tt.BV(0x800, 32), r),
			tt.Not(tt.And(tt.Cmp(OpUle, tt.BV(0xD800, 32), r), tt.Cmp(OpUle, r, tt.BV(0xDFFF, 32)))))
		if !p.decide(okr) {
			return bad()
		}
		return fromTerm(r, types.Typ[types.Int32]), 3
	}
	// 4-byte: F0..F4
	if p.decide(tt.And(tt.Cmp(OpUle, c8(0xF0), t0), tt.Cmp(OpUle, t0, c8(0xF4)))) {
		t1, ok := cont(i + 1)
		if !ok {
			return bad()
		}
		t2, ok := cont(i + 2)
		if !ok {
			return bad()
		}
		t3, ok := cont(i + 3)
		if !ok {
			return bad()
		}
		r := or(or(or(shl(and(z32(t0), 0x07), 18), shl(and(z32(t1), 0x3F), 12)), shl(and(z32(t2), 0x3F), 6)), and(z32(t3), 0x3F))
		okr := tt.And(tt.Cmp(OpUle, tt.BV(0x10000, 32), r), tt.Cmp(OpUle, r, tt.BV(0x10FFFF, 32)))
		if !p.decide(okr) {
			return bad()
		}
		return fromTerm(r, types.Typ[types.Int32]), 4
	}
	return bad()
}

func (fr *frame) rangeIter(x value, t types.Type) iter {
	switch x := x.(type) {
	case *gmap:
		fr.mapRead(x)
		return &mapIter{m: x}
	case string, symstr:
		return &stringIter{s: x}
	}
	panic(unsupported(fmt.Sprintf("range over %T", x)))
}
