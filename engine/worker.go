package main

// Exploration: work queue of decision-vector prefixes, workers with one
// solver each, aggregation of results.

import (
	"fmt"
	"os"
	"sort"
	"sync"
	"time"

	"golang.org/x/tools/go/ssa"
)

type HarnessCfg struct {
	Func     string         `json:"func"`
	Pkg      string         `json:"pkg"` // package dir relative to repo
	Params   map[string]int `json:"params"`
	Quick    map[string]int `json:"quick"`
	Thorough map[string]int `json:"thorough"`
	Reach    []string       `json:"reach"`
	Unwind   int            `json:"unwind"`
	Steps    int            `json:"steps"`
	Depth    int            `json:"depth"` // call depth limit (default 200)
	MaxG     int            `json:"max_goroutines"` // goroutines per path (default 16)
	MaxPaths int            `json:"max_paths"`
	Note     string         `json:"note"`
	Bounds   string         `json:"bounds"`
}

type Results struct {
	mu            sync.Mutex
	Harness       string
	Paths         int
	Infeasible    int
	Obligations   int
	Choices       map[byte]int
	Unknowns      int
	Inconclusive  map[string]int
	Violations    map[string][]Violation // by label
	ViolCount     map[string]int
	Reach         map[string]int
	Stubs         map[string]bool
	Funcs         map[string]int
	Steps         int64
	Solver        SolverStats
	Samples       []string
	MaxDepth      int
	Assumes       int
	MaxPreempt    int
	Goroutines    int
	Truncated     bool
}

func NewResults(h string) *Results {
	return &Results{Harness: h, Choices: map[byte]int{}, Inconclusive: map[string]int{},
		Violations: map[string][]Violation{}, ViolCount: map[string]int{}, Reach: map[string]int{},
		Stubs: map[string]bool{}, Funcs: map[string]int{}}
}

func (r *Results) noteUnknown() { r.mu.Lock(); r.Unknowns++; r.mu.Unlock() }
func (r *Results) obligation()  { r.mu.Lock(); r.Obligations++; r.mu.Unlock() }
func (r *Results) choice(k byte) {
	r.mu.Lock()
	r.Choices[k]++
	r.mu.Unlock()
}
func (r *Results) inconclusive(why string) {
	r.mu.Lock()
	r.Inconclusive[why]++
	r.mu.Unlock()
}

type Worker struct {
	id            int
	tt            *TermTable
	s             *Solver
	res           *Results
	env           *Env
	sharedGlobals map[*ssa.Global]*value
	sharedInited  bool
}

type queue struct {
	mu      sync.Mutex
	cond    *sync.Cond
	items   []workItem
	busy    int
	closed  bool
	started int
	max     int
}

func newQueue() *queue {
	q := &queue{}
	q.cond = sync.NewCond(&q.mu)
	return q
}

func (q *queue) push(items []workItem) {
	q.mu.Lock()
	q.items = append(q.items, items...)
	q.mu.Unlock()
	q.cond.Broadcast()
}

// pop returns the next prefix (LIFO) or nil when exploration is complete.
func (q *queue) pop() (workItem, bool) {
	q.mu.Lock()
	defer q.mu.Unlock()
	for {
		if q.max > 0 && q.started >= q.max {
			q.closed = true
			q.cond.Broadcast()
			return workItem{}, false
		}
		if len(q.items) > 0 {
			it := q.items[len(q.items)-1]
			q.items = q.items[:len(q.items)-1]
			q.busy++
			q.started++
			return it, true
		}
		if q.busy == 0 || q.closed {
			q.closed = true
			q.cond.Broadcast()
			return workItem{}, false
		}
		q.cond.Wait()
	}
}

func (q *queue) done() {
	q.mu.Lock()
	q.busy--
	q.mu.Unlock()
	q.cond.Broadcast()
}

// Explore runs harness fn exhaustively over its decision tree.
func Explore(env *Env, fn *ssa.Function, cfg HarnessCfg, params map[string]int, nworkers int, deadline time.Time) *Results {
	res := NewResults(cfg.Func)
	q := newQueue()
	q.max = cfg.MaxPaths
	q.push([]workItem{{base: nil, alt: -1}})
	var wg sync.WaitGroup
	for i := 0; i < nworkers; i++ {
		wg.Add(1)
		go func(id int) {
			defer wg.Done()
			w := &Worker{id: id, tt: NewTermTable(), s: NewSolver(), res: res, env: env,
				sharedGlobals: map[*ssa.Global]*value{}}
			defer w.s.Close()
			for {
				item, ok := q.pop()
				if !ok {
					break
				}
				var prefix []int64
				if !(item.base == nil && item.alt == -1) {
					prefix = item.prefix()
				}
				if time.Now().After(deadline) {
					res.inconclusive("deadline reached; exploration truncated")
					res.mu.Lock()
					res.Truncated = true
					res.mu.Unlock()
					q.done()
					q.mu.Lock()
					q.closed = true
					q.mu.Unlock()
					q.cond.Broadcast()
					break
				}
				pending := w.runPath(fn, cfg, params, prefix)
				if len(pending) > 0 {
					q.push(pending)
				}
				q.done()
				// keep term table from growing without bound
				if len(w.tt.tab) > 2000000 {
					w.tt = NewTermTable()
				}
			}
			res.mu.Lock()
			res.Solver.Sat += w.s.stats.Sat
			res.Solver.Unsat += w.s.stats.Unsat
			res.Solver.Unknown += w.s.stats.Unknown
			res.Solver.Time += w.s.stats.Time
			res.mu.Unlock()
		}(i)
	}
	wg.Wait()
	if q.max > 0 && q.started >= q.max && len(q.items) > 0 {
		res.inconclusive(fmt.Sprintf("max_paths %d reached; %d prefixes unexplored", q.max, len(q.items)))
		res.Truncated = true
	}
	return res
}

func (w *Worker) runPath(fn *ssa.Function, cfg HarnessCfg, params map[string]int, prefix []int64) (pending []workItem) {
	p := &Path{w: w, tt: w.tt, s: w.s, prefix: prefix, varSet: map[*Term]bool{},
		reach: map[string]int{}, harness: cfg.Func, stubs: map[string]bool{}, funcs: map[string]int{},
		maxSteps: 2000000, maxDepth: 200, unwind: 100000, numCPU: 2}
	if cfg.Depth > 0 {
		p.maxDepth = cfg.Depth
	}
	if cfg.Steps > 0 {
		p.maxSteps = cfg.Steps
	}
	if cfg.Unwind > 0 {
		p.unwind = cfg.Unwind
	}
	p.params = params
	p.sched = newScheduler(p)
	if cfg.MaxG > 0 {
		p.sched.maxG = cfg.MaxG
	}
	in := &interpreter{prog: w.env.prog, globals: map[*ssa.Global]*value{}, sizes: w.env.sizes,
		runtimeErrorString: w.env.rtErrStr, env: w.env}
	w.s.BeginPath()
	defer w.s.EndPath()

	g0 := &goroutine{id: 0, resume: make(chan struct{}, 1)}
	p.sched.gs = []*goroutine{g0}
	p.sched.cur = g0
	root := &frame{i: in, p: p, g: g0, fn: fn}
	g0.top = root
	p.sched.wg.Add(1)
	go p.sched.runGoroutine(g0, func() {
		// package initialisation of the harness package (per path)
		if init := fn.Pkg.Func("init"); init != nil {
			root.call(fn.Pos(), init, nil, nil)
		}
		root.call(fn.Pos(), fn, nil, nil)
	})
	g0.resume <- struct{}{}
	end := <-p.sched.finished
	p.sched.killAll()

	res := w.res
	outcome := "ok"
	switch {
	case end.abort != nil:
		outcome = end.abort.kind
		switch end.abort.kind {
		case "infeasible":
		case "halt":
			outcome = "halt"
		default:
			res.inconclusive(end.abort.kind + ": " + firstLine(end.abort.msg))
			if os.Getenv("GOSYM_DEBUG") != "" {
				fmt.Fprintln(os.Stderr, "ENGINE ERROR:", end.abort.msg)
			}
		}
	case end.panic != nil:
		// uncaught target panic: violation under the current PC
		if p.ensureModelSafe() {
			msg := panicMessage(root, end.panic.v)
			p.violate("panic:"+end.panic.site, end.panic.site, msg, nil)
		} else {
			res.inconclusive("panic on path without model")
		}
		outcome = "panic"
	case end.fatal != "":
		if p.ensureModelSafe() {
			site := ""
			if len(end.stack) > 0 {
				site = end.stack[0]
			}
			p.violate("fatal:"+fatalKind(end.fatal), site, end.fatal, nil)
		}
		outcome = "fatal"
	}

	res.mu.Lock()
	defer res.mu.Unlock()
	if outcome == "infeasible" {
		res.Infeasible++
	} else {
		res.Paths++
	}
	res.Steps += int64(p.steps)
	res.Assumes += p.assumes
	if len(p.trace) > res.MaxDepth {
		res.MaxDepth = len(p.trace)
	}
	if p.sched.preempts > res.MaxPreempt {
		res.MaxPreempt = p.sched.preempts
	}
	if len(p.sched.gs) > res.Goroutines {
		res.Goroutines = len(p.sched.gs)
	}
	for k, v := range p.reach {
		res.Reach[k] += v
	}
	for k := range p.stubs {
		res.Stubs[k] = true
	}
	for k, v := range p.funcs {
		res.Funcs[k] += v
	}
	for _, v := range p.violations {
		res.ViolCount[v.Label]++
		if len(res.Violations[v.Label]) < 3 {
			res.Violations[v.Label] = append(res.Violations[v.Label], v)
		}
	}
	if len(res.Samples) < 5 && outcome != "infeasible" && len(p.ndlog) > 0 {
		if p.ensureModelQuiet() {
			res.Samples = append(res.Samples, fmt.Sprintf("%s: %s -> %s", cfg.Func, renderND(p.snapshotND()), outcome))
		}
	}
	return p.pending
}

func fatalKind(msg string) string {
	switch {
	case contains(msg, "deadlock"):
		return "deadlock"
	case contains(msg, "concurrent map"):
		return "concurrent-map"
	}
	return "fatal"
}

func contains(s, sub string) bool {
	for i := 0; i+len(sub) <= len(s); i++ {
		if s[i:i+len(sub)] == sub {
			return true
		}
	}
	return false
}

func firstLine(s string) string {
	for i := 0; i < len(s); i++ {
		if s[i] == '\n' {
			return s[:i]
		}
	}
	return s
}

// ensureModelSafe obtains a model for the current PC without panicking.
func (p *Path) ensureModelSafe() (ok bool) {
	defer func() {
		if r := recover(); r != nil {
			ok = false
		}
	}()
	return p.ensureModel()
}

func (p *Path) ensureModelQuiet() bool {
	if p.modelValid {
		return true
	}
	return false
}

func renderND(nd []ndVal) string {
	s := ""
	for i, v := range nd {
		if i > 24 {
			s += " …"
			break
		}
		if i > 0 {
			s += " "
		}
		s += fmt.Sprintf("%s=%d", v.Label, v.Value)
	}
	return s
}

func panicMessage(fr *frame, v value) string {
	if it, ok := v.(iface); ok {
		switch x := it.v.(type) {
		case string:
			return x
		}
		if it.t != nil && it.t.String() == "runtime.errorString" {
			return "runtime error: " + toString(it.v)
		}
	}
	return toString(v)
}

func sortedStrs(m map[string]bool) []string {
	var ks []string
	for k := range m {
		ks = append(ks, k)
	}
	sort.Strings(ks)
	return ks
}
