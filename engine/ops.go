package main

// Operators: concrete fast paths on native Go scalars, symbolic paths on
// *Term. Derived in structure from x/tools/go/ssa/interp/ops.go.

import (
	"fmt"
	"go/constant"
	"go/token"
	"go/types"
	"unsafe"

	"golang.org/x/tools/go/ssa"
)

// targetPanic is a Go-level panic of the program under test.
type targetPanic struct {
	v    value
	site string
}

func constValue(c *ssa.Const) value {
	if c.Value == nil {
		return zero(c.Type())
	}
	if t, ok := c.Type().Underlying().(*types.Basic); ok {
		switch t.Kind() {
		case types.Bool, types.UntypedBool:
			return constant.BoolVal(c.Value)
		case types.Int, types.UntypedInt:
			return int(c.Int64())
		case types.Int8:
			return int8(c.Int64())
		case types.Int16:
			return int16(c.Int64())
		case types.Int32, types.UntypedRune:
			return int32(c.Int64())
		case types.Int64:
			return c.Int64()
		case types.Uint:
			return uint(c.Uint64())
		case types.Uint8:
			return uint8(c.Uint64())
		case types.Uint16:
			return uint16(c.Uint64())
		case types.Uint32:
			return uint32(c.Uint64())
		case types.Uint64:
			return c.Uint64()
		case types.Uintptr:
			return uintptr(c.Uint64())
		case types.Float32:
			return float32(c.Float64())
		case types.Float64, types.UntypedFloat:
			return c.Float64()
		case types.Complex64:
			return complex64(c.Complex128())
		case types.Complex128, types.UntypedComplex:
			return c.Complex128()
		case types.String, types.UntypedString:
			if c.Value.Kind() == constant.String {
				return constant.StringVal(c.Value)
			}
			return string(rune(c.Int64()))
		}
	}
	panic(fmt.Sprintf("constValue: %s", c))
}

// concBits returns the bit pattern, width and signedness of a concrete
// integer value.
func concBits(v value) (bits uint64, w uint8, signed bool, ok bool) {
	switch x := v.(type) {
	case int:
		return uint64(x), 64, true, true
	case int8:
		return uint64(x) & 0xff, 8, true, true
	case int16:
		return uint64(x) & 0xffff, 16, true, true
	case int32:
		return uint64(x) & 0xffffffff, 32, true, true
	case int64:
		return uint64(x), 64, true, true
	case uint:
		return uint64(x), 64, false, true
	case uint8:
		return uint64(x), 8, false, true
	case uint16:
		return uint64(x), 16, false, true
	case uint32:
		return uint64(x), 32, false, true
	case uint64:
		return x, 64, false, true
	case uintptr:
		return uint64(x), 64, false, true
	}
	return 0, 0, false, false
}

// retype builds a concrete integer of the same Go type as like.
func retype(like value, bits uint64) value {
	switch like.(type) {
	case int:
		return int(bits)
	case int8:
		return int8(bits)
	case int16:
		return int16(bits)
	case int32:
		return int32(bits)
	case int64:
		return int64(bits)
	case uint:
		return uint(bits)
	case uint8:
		return uint8(bits)
	case uint16:
		return uint16(bits)
	case uint32:
		return uint32(bits)
	case uint64:
		return bits
	case uintptr:
		return uintptr(bits)
	}
	panic(fmt.Sprintf("retype: %T", like))
}

func asInt64(x value) int64 {
	b, w, signed, ok := concBits(x)
	if !ok {
		panic(fmt.Sprintf("cannot convert %T to int64", x))
	}
	if signed {
		return sext64(b, w)
	}
	return int64(b)
}

// asIntC converts x to a concrete int, concretising (forking) when symbolic.
func (p *Path) asIntC(x value) int64 {
	if t, ok := x.(*Term); ok {
		v := p.concretize(t)
		return sext64(v, t.w)
	}
	return asInt64(x)
}

func zero(t types.Type) value {
	switch t := t.(type) {
	case *types.Basic:
		if t.Kind() == types.UntypedNil {
			panic("untyped nil has no zero value")
		}
		if t.Info()&types.IsUntyped != 0 {
			t = types.Default(t).(*types.Basic)
		}
		switch t.Kind() {
		case types.Bool:
			return false
		case types.Int:
			return int(0)
		case types.Int8:
			return int8(0)
		case types.Int16:
			return int16(0)
		case types.Int32:
			return int32(0)
		case types.Int64:
			return int64(0)
		case types.Uint:
			return uint(0)
		case types.Uint8:
			return uint8(0)
		case types.Uint16:
			return uint16(0)
		case types.Uint32:
			return uint32(0)
		case types.Uint64:
			return uint64(0)
		case types.Uintptr:
			return uintptr(0)
		case types.Float32:
			return float32(0)
		case types.Float64:
			return float64(0)
		case types.Complex64:
			return complex64(0)
		case types.Complex128:
			return complex128(0)
		case types.String:
			return ""
		case types.UnsafePointer:
			return unsafe.Pointer(nil)
		default:
			panic(fmt.Sprint("zero for unexpected type:", t))
		}
	case *types.Pointer:
		return (*value)(nil)
	case *types.Array:
		a := make(array, t.Len())
		for i := range a {
			a[i] = zero(t.Elem())
		}
		return a
	case *types.Named:
		return zero(t.Underlying())
	case *types.Alias:
		return zero(types.Unalias(t))
	case *types.Interface:
		return iface{}
	case *types.Slice:
		return []value(nil)
	case *types.Struct:
		s := make(structure, t.NumFields())
		for i := range s {
			s[i] = zero(t.Field(i).Type())
		}
		return s
	case *types.Tuple:
		if t.Len() == 1 {
			return zero(t.At(0).Type())
		}
		s := make(tuple, t.Len())
		for i := range s {
			s[i] = zero(t.At(i).Type())
		}
		return s
	case *types.Chan:
		return (*gchan)(nil)
	case *types.Map:
		return (*gmap)(nil)
	case *types.Signature:
		return (*ssa.Function)(nil)
	case *types.TypeParam:
		panic("zero: type parameter")
	}
	panic(fmt.Sprint("zero: unexpected ", t))
}

func (fr *frame) rtPanic(msg string) {
	panic(targetPanic{v: iface{fr.i.runtimeErrorString, msg}, site: fr.site()})
}

// checkIndex validates idx against n (concrete) and returns a concrete
// index, forking when idx is symbolic.
func (fr *frame) checkIndex(idx value, n int) int {
	if t, ok := idx.(*Term); ok {
		p := fr.p
		// in range?
		var inr *Term
		nn := p.tt.BV(uint64(n), t.Width())
		inr = p.tt.Cmp(OpUlt, t, nn) // as unsigned: negative values are huge
		if !p.decide(inr) {
			fr.rtPanic(fmt.Sprintf("index out of range [sym] with length %d", n))
		}
		return int(p.concretize(t))
	}
	i := asInt64(idx)
	if i < 0 || i >= int64(n) {
		fr.rtPanic(fmt.Sprintf("index out of range [%d] with length %d", i, n))
	}
	return int(i)
}

// slice returns x[lo:hi:max].
func (fr *frame) slice(x, lo, hi, max value) value {
	var Len, Cap int
	switch x := x.(type) {
	case string, symstr:
		Len = strLen(x)
		Cap = Len
	case []value:
		Len = len(x)
		Cap = cap(x)
	case *value:
		if x == nil {
			fr.rtPanic("invalid memory address or nil pointer dereference")
		}
		a := (*x).(array)
		Len = len(a)
		Cap = cap(a)
	}
	p := fr.p
	l := int64(0)
	if lo != nil {
		l = p.asIntC(lo)
	}
	h := int64(Len)
	if hi != nil {
		h = p.asIntC(hi)
	}
	m := int64(Cap)
	if max != nil {
		m = p.asIntC(max)
	}
	isStr := false
	switch x.(type) {
	case string, symstr:
		isStr = true
	}
	if isStr {
		if h < 0 || h > int64(Len) {
			fr.rtPanic(fmt.Sprintf("slice bounds out of range [:%d] with length %d", h, Len))
		}
	} else {
		if m < 0 || m > int64(Cap) {
			fr.rtPanic(fmt.Sprintf("slice bounds out of range [::%d] with capacity %d", m, Cap))
		}
		if h < 0 || h > m {
			if max != nil {
				fr.rtPanic(fmt.Sprintf("slice bounds out of range [:%d:%d]", h, m))
			}
			fr.rtPanic(fmt.Sprintf("slice bounds out of range [:%d] with capacity %d", h, Cap))
		}
	}
	if l < 0 || l > h {
		fr.rtPanic(fmt.Sprintf("slice bounds out of range [%d:%d]", l, h))
	}
	switch x := x.(type) {
	case string, symstr:
		return strSlice(x, int(l), int(h))
	case []value:
		if x == nil {
			return []value(nil)
		}
		return x[l:h:m]
	case *value:
		a := (*x).(array)
		return []value(a)[l:h:m]
	}
	panic(fmt.Sprintf("slice: unexpected X type: %T", x))
}

var smtArith = map[token.Token][2]Op{ // [unsigned, signed]
	token.ADD: {OpBvAdd, OpBvAdd}, token.SUB: {OpBvSub, OpBvSub}, token.MUL: {OpBvMul, OpBvMul},
	token.QUO: {OpBvUDiv, OpBvSDiv}, token.REM: {OpBvURem, OpBvSRem},
	token.AND: {OpBvAnd, OpBvAnd}, token.OR: {OpBvOr, OpBvOr}, token.XOR: {OpBvXor, OpBvXor},
	token.SHL: {OpBvShl, OpBvShl}, token.SHR: {OpBvLShr, OpBvAShr},
}

func isStrVal(v value) bool {
	switch v.(type) {
	case string, symstr:
		return true
	}
	return false
}

// binop implements binary operators. t is the static type of x.
func (fr *frame) binop(op token.Token, t types.Type, ty types.Type, x, y value) value {
	p := fr.p
	switch op {
	case token.EQL:
		return p.eqnil(t, x, y)
	case token.NEQ:
		return p.notv(p.eqnil(t, x, y))
	}
	// strings
	if isStrVal(x) {
		switch op {
		case token.ADD:
			return strConcat(x, y)
		case token.LSS:
			return p.strLess(x, y)
		case token.GTR:
			return p.strLess(y, x)
		case token.LEQ:
			return p.notv(p.strLess(y, x))
		case token.GEQ:
			return p.notv(p.strLess(x, y))
		}
	}
	xb, w, signed, xok := concBits(x)
	yb, wy, _, yok := concBits(y)
	if xok && yok {
		si := 0
		if signed {
			si = 1
		}
		switch op {
		case token.ADD, token.SUB, token.MUL, token.AND, token.OR, token.XOR:
			r, _ := foldBin(smtArith[op][si], w, xb, yb)
			return retype(x, r)
		case token.AND_NOT:
			return retype(x, xb&^yb)
		case token.QUO, token.REM:
			if yb == 0 {
				fr.rtPanic("integer divide by zero")
			}
			r, _ := foldBin(smtArith[op][si], w, xb, yb)
			return retype(x, r)
		case token.SHL, token.SHR:
			// y may be signed: negative shift panics
			if _, _, ys, _ := concBits(y); ys && sext64(yb, wy) < 0 {
				fr.rtPanic("negative shift amount")
			}
			r, _ := foldBin(smtArith[op][si], w, xb, yb)
			return retype(x, r)
		case token.LSS, token.LEQ, token.GTR, token.GEQ:
			var lt, eq bool
			if signed {
				lt, eq = sext64(xb, w) < sext64(yb, w), xb == yb
			} else {
				lt, eq = xb < yb, xb == yb
			}
			switch op {
			case token.LSS:
				return lt
			case token.LEQ:
				return lt || eq
			case token.GTR:
				return !lt && !eq
			default:
				return !lt
			}
		}
	}
	// floats / complex (concrete only)
	switch xv := x.(type) {
	case float64:
		yv := y.(float64)
		switch op {
		case token.ADD:
			return xv + yv
		case token.SUB:
			return xv - yv
		case token.MUL:
			return xv * yv
		case token.QUO:
			return xv / yv
		case token.LSS:
			return xv < yv
		case token.LEQ:
			return xv <= yv
		case token.GTR:
			return xv > yv
		case token.GEQ:
			return xv >= yv
		}
	case float32:
		yv := y.(float32)
		switch op {
		case token.ADD:
			return xv + yv
		case token.SUB:
			return xv - yv
		case token.MUL:
			return xv * yv
		case token.QUO:
			return xv / yv
		case token.LSS:
			return xv < yv
		case token.LEQ:
			return xv <= yv
		case token.GTR:
			return xv > yv
		case token.GEQ:
			return xv >= yv
		}
	}
	// symbolic integers
	_, xs := x.(*Term)
	_, ys := y.(*Term)
	if xs || ys {
		return fr.symBinop(op, t, ty, x, y)
	}
	panic(unsupported(fmt.Sprintf("binop: %T %s %T", x, op, y)))
}

func (fr *frame) symBinop(op token.Token, t, ty types.Type, x, y value) value {
	p := fr.p
	tt := p.tt
	a, b := p.toTerm(x), p.toTerm(y)
	if a.w == 0 || b.w == 0 {
		panic(unsupported("symBinop on bool"))
	}
	signed := isSignedType(t)
	si := 0
	if signed {
		si = 1
	}
	switch op {
	case token.SHL, token.SHR:
		ysigned := ty != nil && isSignedType(ty)
		if ysigned && b.op != OpConst {
			neg := tt.Cmp(OpSlt, b, tt.BV(0, b.Width()))
			if p.decide(neg) {
				fr.rtPanic("negative shift amount")
			}
		}
		// normalise the count to a's width, saturating
		if b.w > a.w {
			big := tt.Not(tt.Cmp(OpUlt, b, tt.BV(uint64(a.w), b.Width())))
			b = tt.Ite(big, tt.BV(uint64(a.w), a.Width()), tt.Extract(b, int(a.w)-1, 0))
		} else if b.w < a.w {
			b = tt.ZExt(b, a.Width())
		}
		return fromTerm(tt.BvBin(smtArith[op][si], a, b), t)
	case token.QUO, token.REM:
		if b.op != OpConst || b.k == 0 {
			z := tt.Eq(b, tt.BV(0, b.Width()))
			if p.decide(z) {
				fr.rtPanic("integer divide by zero")
			}
		}
		return fromTerm(tt.BvBin(smtArith[op][si], a, b), t)
	case token.ADD, token.SUB, token.MUL, token.AND, token.OR, token.XOR:
		return fromTerm(tt.BvBin(smtArith[op][si], a, b), t)
	case token.AND_NOT:
		return fromTerm(tt.BvBin(OpBvAnd, a, tt.BvNot(b)), t)
	case token.LSS:
		if signed {
			return p.fromBoolTerm(tt.Cmp(OpSlt, a, b))
		}
		return p.fromBoolTerm(tt.Cmp(OpUlt, a, b))
	case token.LEQ:
		if signed {
			return p.fromBoolTerm(tt.Cmp(OpSle, a, b))
		}
		return p.fromBoolTerm(tt.Cmp(OpUle, a, b))
	case token.GTR:
		if signed {
			return p.fromBoolTerm(tt.Cmp(OpSlt, b, a))
		}
		return p.fromBoolTerm(tt.Cmp(OpUlt, b, a))
	case token.GEQ:
		if signed {
			return p.fromBoolTerm(tt.Cmp(OpSle, b, a))
		}
		return p.fromBoolTerm(tt.Cmp(OpUle, b, a))
	}
	panic(unsupported(fmt.Sprintf("symBinop %s", op)))
}

// eqnil: comparison where one side may be a nil literal of a reference type.
func (p *Path) eqnil(t types.Type, x, y value) value {
	switch t.Underlying().(type) {
	case *types.Map:
		return (x.(*gmap) == nil) && (y.(*gmap) == nil) || x.(*gmap) == y.(*gmap)
	case *types.Signature:
		return isNilFunc(x) && isNilFunc(y)
	case *types.Slice:
		xs, ys := x.([]value), y.([]value)
		return (xs == nil) == (ys == nil) && (xs == nil || ys == nil) && xs == nil || (xs == nil && ys == nil)
	}
	return p.eqv(x, y)
}

func (fr *frame) unop(instr *ssa.UnOp, x value) value {
	p := fr.p
	switch instr.Op {
	case token.ARROW:
		return fr.chanRecv(instr, x)
	case token.SUB:
		if t, ok := x.(*Term); ok {
			return fromTerm(p.tt.BvNeg(t), instr.Type())
		}
		switch x := x.(type) {
		case float32:
			return -x
		case float64:
			return -x
		case complex64:
			return -x
		case complex128:
			return -x
		}
		b, _, _, ok := concBits(x)
		if ok {
			return retype(x, -b)
		}
	case token.MUL:
		ptr := x.(*value)
		if ptr == nil {
			fr.rtPanic("invalid memory address or nil pointer dereference")
		}
		fr.raceRead(instr.X, ptr)
		return load(deref(instr.X.Type()), ptr)
	case token.NOT:
		return p.notv(x)
	case token.XOR:
		if t, ok := x.(*Term); ok {
			return fromTerm(p.tt.BvNot(t), instr.Type())
		}
		b, _, _, ok := concBits(x)
		if ok {
			return retype(x, ^b)
		}
	}
	panic(unsupported(fmt.Sprintf("unop %s %T", instr.Op, x)))
}

func deref(t types.Type) types.Type {
	if p, ok := t.Underlying().(*types.Pointer); ok {
		return p.Elem()
	}
	panic(fmt.Sprintf("deref: not a pointer: %s", t))
}

func (fr *frame) typeAssert(instr *ssa.TypeAssert, itf iface) value {
	var v value
	err := ""
	if itf.t == nil {
		err = fmt.Sprintf("interface conversion: interface is nil, not %s", instr.AssertedType)
	} else if idst, ok := instr.AssertedType.Underlying().(*types.Interface); ok {
		v = itf
		if meth, _ := types.MissingMethod(itf.t, idst, true); meth != nil {
			err = fmt.Sprintf("interface conversion: %v is not %v: missing method %s", itf.t, idst, meth.Name())
		}
	} else if types.Identical(itf.t, instr.AssertedType) {
		v = copyVal(itf.v)
	} else {
		err = fmt.Sprintf("interface conversion: interface is %s, not %s", itf.t, instr.AssertedType)
	}
	if err != "" {
		if !instr.CommaOk {
			fr.rtPanic(err)
		}
		return tuple{zero(instr.AssertedType), false}
	}
	if instr.CommaOk {
		return tuple{v, true}
	}
	return v
}

// go1.23 malloc size classes (bytes).
var sizeClasses = []int{0, 8, 16, 24, 32, 48, 64, 80, 96, 112, 128, 144, 160, 176, 192, 208, 224, 240, 256, 288, 320, 352, 384, 416, 448, 480, 512, 576, 640, 704, 768, 896, 1024, 1152, 1280, 1408, 1536, 1792, 2048, 2304, 2688, 3072, 3200, 3456, 4096, 4864, 5120, 5376, 6144, 6528, 6784, 6912, 8192, 9472, 9728, 10240, 10880, 12288, 13568, 14336, 16384, 18432, 19072, 20480, 21760, 24576, 27264, 28672, 32768}

func roundupsize(n int) int {
	if n <= 32768 {
		for _, c := range sizeClasses {
			if c >= n {
				return c
			}
		}
	}
	const page = 8192
	return (n + page - 1) / page * page
}

// growCap mirrors runtime.growslice's capacity computation.
func growCap(oldCap, newLen, elemSize int) int {
	newcap := oldCap
	doublecap := newcap + newcap
	if newLen > doublecap {
		newcap = newLen
	} else {
		const threshold = 256
		if oldCap < threshold {
			newcap = doublecap
		} else {
			for {
				newcap += (newcap + 3*threshold) >> 2
				if uint(newcap) >= uint(newLen) {
					break
				}
			}
		}
	}
	if elemSize == 0 {
		return newcap
	}
	mem := roundupsize(newcap * elemSize)
	return mem / elemSize
}

// appendSlice appends more to s with Go's capacity growth for element type et.
func (fr *frame) appendSlice(et types.Type, s []value, more []value) []value {
	if len(more) == 0 {
		return s
	}
	n := len(s) + len(more)
	if n <= cap(s) {
		s2 := s[:n]
		copy(s2[len(s):], more)
		return s2
	}
	es := int(fr.i.sizes.Sizeof(et))
	nc := growCap(cap(s), n, es)
	ns := make([]value, n, nc)
	copy(ns, s)
	copy(ns[len(s):], more)
	// fill spare capacity with zero values so later reslicing sees zeros
	if nc > n {
		spare := ns[n:nc]
		z := zero(et)
		_, agg := z.(structure)
		_, agg2 := z.(array)
		for i := range spare {
			if agg || agg2 {
				spare[i] = zero(et)
			} else {
				spare[i] = z
			}
		}
	}
	return ns
}

func (fr *frame) callBuiltin(callpos token.Pos, fn *ssa.Builtin, args []value, instrType types.Type) value {
	p := fr.p
	switch fn.Name() {
	case "append":
		if len(args) == 1 {
			return args[0]
		}
		st := fn.Type().(*types.Signature).Params().At(0).Type().Underlying().(*types.Slice)
		if isStrVal(args[1]) {
			return fr.appendSlice(st.Elem(), args[0].([]value), strBytes(args[1]))
		}
		src := args[1].([]value)
		cp := make([]value, len(src))
		for i := range src {
			cp[i] = copyVal(src[i])
		}
		return fr.appendSlice(st.Elem(), args[0].([]value), cp)

	case "copy":
		var src []value
		if isStrVal(args[1]) {
			src = strBytes(args[1])
		} else {
			src = args[1].([]value)
		}
		dst := args[0].([]value)
		n := len(dst)
		if len(src) < n {
			n = len(src)
		}
		// overlapping-safe copy with aggregate copies
		tmp := make([]value, n)
		for i := 0; i < n; i++ {
			tmp[i] = copyVal(src[i])
		}
		copy(dst, tmp)
		return n

	case "close":
		fr.chanClose(args[0].(*gchan))
		return nil

	case "delete":
		m := args[0].(*gmap)
		if m != nil {
			fr.mapWriteBegin(m)
			m.delete(fr, args[1])
			fr.mapWriteEnd(m)
		}
		return nil

	case "print", "println":
		return nil

	case "len":
		switch x := args[0].(type) {
		case string, symstr:
			return strLen(x)
		case array:
			return len(x)
		case *value:
			if x == nil {
				// len of nil *array is the array length by type
				return int(deref(fn.Type().(*types.Signature).Params().At(0).Type()).Underlying().(*types.Array).Len())
			}
			return len((*x).(array))
		case []value:
			return len(x)
		case *gmap:
			fr.mapRead(x)
			return x.len()
		case *gchan:
			return fr.chanLen(x)
		default:
			panic(fmt.Sprintf("len: illegal operand: %T", x))
		}

	case "cap":
		switch x := args[0].(type) {
		case array:
			return cap(x)
		case *value:
			return cap((*x).(array))
		case []value:
			return cap(x)
		case *gchan:
			if x == nil {
				return 0
			}
			return x.cap
		default:
			panic(fmt.Sprintf("cap: illegal operand: %T", x))
		}

	case "min", "max":
		x := args[0]
		for _, a := range args[1:] {
			var lt value
			if fn.Name() == "min" {
				lt = fr.binop(token.LSS, instrType, instrType, a, x)
			} else {
				lt = fr.binop(token.GTR, instrType, instrType, a, x)
			}
			switch c := lt.(type) {
			case bool:
				if c {
					x = a
				}
			case *Term:
				x = fromTerm(p.tt.Ite(c, p.toTerm(a), p.toTerm(x)), instrType)
			}
		}
		return x

	case "panic":
		panic(targetPanic{v: args[0], site: fr.site()})

	case "recover":
		return doRecover(fr)

	case "ssa:wrapnilchk":
		recv := args[0]
		if recv.(*value) == nil {
			fr.rtPanic(fmt.Sprintf("value method (%s).%s called using nil *%s pointer", args[1], args[2], args[1]))
		}
		return recv

	case "ssa:deferstack":
		return &fr.defers

	case "String": // unsafe.String(ptr, len)
		panic(unsupported("unsafe.String"))
	}
	panic(unsupported("built-in: " + fn.Name()))
}

// conv implements ssa.Convert.
func (fr *frame) conv(t_dst, t_src types.Type, x value) value {
	p := fr.p
	ut_src := t_src.Underlying()
	ut_dst := t_dst.Underlying()

	switch ut_src := ut_src.(type) {
	case *types.Pointer:
		if b, ok := ut_dst.(*types.Basic); ok && b.Kind() == types.UnsafePointer {
			return unsafe.Pointer(x.(*value))
		}
	case *types.Slice:
		// []byte or []rune -> string
		switch ut_src.Elem().Underlying().(*types.Basic).Kind() {
		case types.Byte:
			xs := x.([]value)
			b := make([]value, len(xs))
			copy(b, xs)
			return mkStr(b)
		case types.Rune:
			xs := x.([]value)
			var out []value
			for _, r := range xs {
				out = append(out, fr.encodeRune(r)...)
			}
			return mkStr(out)
		}
	case *types.Basic:
		// string -> []byte, []rune, string
		if isStrVal(x) {
			switch ut_dst := ut_dst.(type) {
			case *types.Slice:
				switch ut_dst.Elem().Underlying().(*types.Basic).Kind() {
				case types.Byte:
					b := strBytes(x)
					n := len(b)
					if n == 0 {
						return []value{}
					}
					// mirror rawbyteslice: cap = roundupsize(len)
					c := roundupsize(n)
					nb := make([]value, n, c)
					copy(nb, b)
					sp := nb[n:c]
					for i := range sp {
						sp[i] = uint8(0)
					}
					return nb
				case types.Rune:
					s, ok := x.(string)
					if !ok {
						panic(unsupported("[]rune(symbolic string)"))
					}
					var res []value
					for _, r := range []rune(s) {
						res = append(res, r)
					}
					return res
				}
			case *types.Basic:
				if ut_dst.Kind() == types.String {
					return x
				}
			}
			break
		}
		// integer -> string
		if ut_src.Info()&types.IsInteger != 0 {
			if bd, ok := ut_dst.(*types.Basic); ok && bd.Kind() == types.String {
				return mkStr(fr.encodeRuneTyped(x, t_src))
			}
		}
		if ut_src.Kind() == types.UnsafePointer {
			if _, ok := ut_dst.(*types.Pointer); ok {
				if up, ok := x.(unsafe.Pointer); ok {
					return (*value)(up)
				}
			}
			return zero(t_dst)
		}
		bd, ok := ut_dst.(*types.Basic)
		if !ok {
			break
		}
		// symbolic integer conversions
		if t, ok := x.(*Term); ok {
			if t.w == 0 {
				return t
			}
			dw := intWidth(bd)
			if dw == 0 {
				panic(unsupported(fmt.Sprintf("conversion of symbolic integer to %s", t_dst)))
			}
			var r *Term
			if dw <= int(t.w) {
				r = p.tt.Extract(t, dw-1, 0)
			} else if isSignedType(t_src) {
				r = p.tt.SExt(t, dw)
			} else {
				r = p.tt.ZExt(t, dw)
			}
			return fromTerm(r, t_dst)
		}
		// concrete numerics
		if ut_src.Info()&types.IsComplex != 0 {
			switch bd.Kind() {
			case types.Complex64:
				switch c := x.(type) {
				case complex64:
					return c
				case complex128:
					return complex64(c)
				}
			case types.Complex128:
				switch c := x.(type) {
				case complex64:
					return complex128(c)
				case complex128:
					return c
				}
			}
			break
		}
		if ut_src.Info()&types.IsNumeric != 0 {
			return convNumeric(bd.Kind(), x)
		}
		if ut_src.Info()&types.IsBoolean != 0 {
			return x
		}
	}
	panic(unsupported(fmt.Sprintf("conversion: %s -> %s, dynamic type %T", t_src, t_dst, x)))
}

func convNumeric(kind types.BasicKind, x value) value {
	var i int64
	var u uint64
	var f float64
	mode := 0
	switch v := x.(type) {
	case float32:
		f, mode = float64(v), 2
	case float64:
		f, mode = v, 2
	default:
		b, w, signed, ok := concBits(x)
		if !ok {
			panic(unsupported(fmt.Sprintf("convNumeric %T", x)))
		}
		if signed {
			i, mode = sext64(b, w), 0
		} else {
			u, mode = b, 1
		}
	}
	switch kind {
	case types.Float32:
		switch mode {
		case 0:
			return float32(i)
		case 1:
			return float32(u)
		}
		return float32(f)
	case types.Float64, types.UntypedFloat:
		switch mode {
		case 0:
			return float64(i)
		case 1:
			return float64(u)
		}
		return f
	}
	var bits uint64
	switch mode {
	case 0:
		bits = uint64(i)
	case 1:
		bits = u
	case 2:
		if f < 0 {
			bits = uint64(int64(f))
		} else {
			bits = uint64(f)
		}
	}
	switch kind {
	case types.Int, types.UntypedInt:
		return int(bits)
	case types.Int8:
		return int8(bits)
	case types.Int16:
		return int16(bits)
	case types.Int32, types.UntypedRune:
		return int32(bits)
	case types.Int64:
		return int64(bits)
	case types.Uint:
		return uint(bits)
	case types.Uint8:
		return uint8(bits)
	case types.Uint16:
		return uint16(bits)
	case types.Uint32:
		return uint32(bits)
	case types.Uint64:
		return bits
	case types.Uintptr:
		return uintptr(bits)
	}
	panic(unsupported(fmt.Sprintf("convNumeric to kind %d", kind)))
}

// encodeRuneTyped UTF-8 encodes an integer value (any integer type).
func (fr *frame) encodeRuneTyped(x value, t types.Type) []value {
	if tm, ok := x.(*Term); ok {
		// normalise to 32 bits
		var r *Term
		if int(tm.w) >= 32 {
			// values outside int32 range become U+FFFD in Go; we require the
			// high bits to be decidable
			r = fr.p.tt.Extract(tm, 31, 0)
			if tm.w > 32 {
				hi := fr.p.tt.Extract(tm, int(tm.w)-1, 32)
				if !fr.p.decide(fr.p.tt.Eq(hi, fr.p.tt.BV(0, int(tm.w)-32))) {
					return []value{uint8(0xEF), uint8(0xBF), uint8(0xBD)}
				}
			}
		} else if isSignedType(t) {
			r = fr.p.tt.SExt(tm, 32)
		} else {
			r = fr.p.tt.ZExt(tm, 32)
		}
		return fr.encodeRune(fromTerm(r, types.Typ[types.Int32]))
	}
	v := asInt64(x)
	if v < 0 || v > 0x10FFFF {
		v = 0xFFFD
	}
	return fr.encodeRune(int32(v))
}

// encodeRune UTF-8 encodes a rune value (int32 or 32-bit *Term), forking on
// the length class when symbolic.
func (fr *frame) encodeRune(r value) []value {
	tm, ok := r.(*Term)
	if !ok {
		s := string(rune(asInt64(r)))
		return strBytes(s)
	}
	p := fr.p
	tt := p.tt
	c := func(v uint64) *Term { return tt.BV(v, 32) }
	b8 := func(t *Term) value { return fromTerm(tt.Extract(t, 7, 0), types.Typ[types.Uint8]) }
	or := func(k uint64, t *Term) *Term { return tt.BvBin(OpBvOr, c(k), t) }
	and := func(t *Term, k uint64) *Term { return tt.BvBin(OpBvAnd, t, c(k)) }
	shr := func(t *Term, k uint64) *Term { return tt.BvBin(OpBvLShr, t, c(k)) }
	if p.decide(tt.Cmp(OpUlt, tm, c(0x80))) {
		return []value{b8(tm)}
	}
	if p.decide(tt.Cmp(OpUlt, tm, c(0x800))) {
		return []value{b8(or(0xC0, shr(tm, 6))), b8(or(0x80, and(tm, 0x3F)))}
	}
	// invalid: surrogates, > 0x10FFFF, negative
	bad := tt.Or(tt.Not(tt.Cmp(OpUle, tm, c(0x10FFFF))),
		tt.And(tt.Cmp(OpUle, c(0xD800), tm), tt.Cmp(OpUle, tm, c(0xDFFF))))
	if p.decide(bad) {
		return []value{uint8(0xEF), uint8(0xBF), uint8(0xBD)}
	}
	if p.decide(tt.Cmp(OpUlt, tm, c(0x10000))) {
		return []value{b8(or(0xE0, shr(tm, 12))), b8(or(0x80, and(shr(tm, 6), 0x3F))), b8(or(0x80, and(tm, 0x3F)))}
	}
	return []value{b8(or(0xF0, shr(tm, 18))), b8(or(0x80, and(shr(tm, 12), 0x3F))), b8(or(0x80, and(shr(tm, 6), 0x3F))), b8(or(0x80, and(tm, 0x3F)))}
}
