package main

// regexp model: a constant pattern is compiled natively with regexp/syntax;
// MatchString over a (possibly symbolic) byte string runs the Thompson NFA
// with one Bool term per live thread and yields a single Bool term. Only
// ASCII rune classes are supported (a byte >= 0x80 matches no class).

import (
	"fmt"
	"go/types"
	"regexp"
	"regexp/syntax"
)

type reModel struct {
	src  string
	prog *syntax.Prog
	re   *regexp.Regexp
}

func init() {
	externals["regexp.MustCompile"] = func(fr *frame, a []value) value {
		m, err := compileRe(a[0])
		if err != nil {
			panic(targetPanic{v: iface{types.Typ[types.String], "regexp: " + err.Error()}, site: fr.site()})
		}
		return reValue(fr, m)
	}
	externals["regexp.Compile"] = func(fr *frame, a []value) value {
		m, err := compileRe(a[0])
		if err != nil {
			ep := fr.i.env.pkgs["errors"]
			e := fr.call(fr.curPos(), ep.Func("New"), []value{err.Error()}, nil)
			return tuple{(*value)(nil), e}
		}
		return tuple{reValue(fr, m), iface{}}
	}
	externals["(*regexp.Regexp).MatchString"] = func(fr *frame, a []value) value {
		m := reOf(a[0])
		if s, ok := a[1].(string); ok {
			return m.re.MatchString(s)
		}
		return m.matchSym(fr, strBytes(a[1]))
	}
	externals["(*regexp.Regexp).Match"] = func(fr *frame, a []value) value {
		m := reOf(a[0])
		return m.matchSym(fr, a[1].([]value))
	}
	externals["(*regexp.Regexp).String"] = func(fr *frame, a []value) value { return reOf(a[0]).src }
	externals["(*regexp.Regexp).ReplaceAllString"] = func(fr *frame, a []value) value {
		m := reOf(a[0])
		s, ok1 := a[1].(string)
		r, ok2 := a[2].(string)
		if !ok1 || !ok2 {
			panic(unsupported("regexp.ReplaceAllString on symbolic string"))
		}
		return m.re.ReplaceAllString(s, r)
	}
}

func compileRe(pat value) (*reModel, error) {
	src, ok := pat.(string)
	if !ok {
		return nil, fmt.Errorf("symbolic pattern")
	}
	re, err := regexp.Compile(src)
	if err != nil {
		return nil, err
	}
	rs, err := syntax.Parse(src, syntax.Perl)
	if err != nil {
		return nil, err
	}
	prog, err := syntax.Compile(rs.Simplify())
	if err != nil {
		return nil, err
	}
	return &reModel{src: src, prog: prog, re: re}, nil
}

// reValue boxes the model as a *regexp.Regexp-typed pointer whose struct
// cell carries the native model in field 0.
func reValue(fr *frame, m *reModel) value {
	var cell value = structure{&native{kind: "regexp", v: m}}
	return &cell
}

func reOf(v value) *reModel {
	p := v.(*value)
	if p == nil {
		panic(unsupported("nil *regexp.Regexp"))
	}
	st, ok := (*p).(structure)
	if !ok || len(st) == 0 {
		panic(unsupported("foreign *regexp.Regexp"))
	}
	n, ok := st[0].(*native)
	if !ok {
		panic(unsupported("uninitialised *regexp.Regexp"))
	}
	return n.v.(*reModel)
}

// byteInRunes: condition that byte b is one of the rune ranges (ASCII only).
func (m *reModel) byteInRunes(p *Path, b *Term, runes []rune, fold bool) *Term {
	tt := p.tt
	acc := tt.False
	if len(runes) == 1 {
		runes = []rune{runes[0], runes[0]}
	}
	for i := 0; i+1 < len(runes); i += 2 {
		lo, hi := runes[i], runes[i+1]
		if lo > 0x7f {
			continue
		}
		if hi > 0x7f {
			panic(unsupported("regexp class reaching beyond ASCII: " + m.src))
		}
		c := tt.And(tt.Cmp(OpUle, tt.BV(uint64(lo), 8), b), tt.Cmp(OpUle, b, tt.BV(uint64(hi), 8)))
		acc = tt.Or(acc, c)
	}
	return acc
}

// matchSym runs the NFA over symbolic bytes and returns bool or *Term.
func (m *reModel) matchSym(fr *frame, bs []value) value {
	p := fr.p
	tt := p.tt
	prog := m.prog
	n := len(bs)
	// threads: pc -> condition
	type set map[int]*Term
	var addThread func(s set, pc int, cond *Term, pos int, visiting map[int]bool)
	matched := tt.False
	addThread = func(s set, pc int, cond *Term, pos int, visiting map[int]bool) {
		if cond == tt.False || visiting[pc] {
			return
		}
		visiting[pc] = true
		defer delete(visiting, pc)
		in := &prog.Inst[pc]
		switch in.Op {
		case syntax.InstFail:
		case syntax.InstAlt, syntax.InstAltMatch:
			addThread(s, int(in.Out), cond, pos, visiting)
			addThread(s, int(in.Arg), cond, pos, visiting)
		case syntax.InstEmptyWidth:
			op := syntax.EmptyOp(in.Arg)
			ok := true
			if op&syntax.EmptyBeginText != 0 && pos != 0 {
				ok = false
			}
			if op&syntax.EmptyEndText != 0 && pos != n {
				ok = false
			}
			if op&^(syntax.EmptyBeginText|syntax.EmptyEndText) != 0 {
				panic(unsupported("regexp empty-width op other than ^ $ in " + m.src))
			}
			if ok {
				addThread(s, int(in.Out), cond, pos, visiting)
			}
		case syntax.InstCapture, syntax.InstNop:
			addThread(s, int(in.Out), cond, pos, visiting)
		case syntax.InstMatch:
			matched = tt.Or(matched, cond)
		default: // rune instructions
			if old, ok := s[pc]; ok {
				s[pc] = tt.Or(old, cond)
			} else {
				s[pc] = cond
			}
		}
	}
	cur := set{}
	for pos := 0; pos <= n; pos++ {
		// unanchored search: a new thread may start at every position
		addThread(cur, prog.Start, tt.True, pos, map[int]bool{})
		if pos == n {
			break
		}
		b := p.toTerm(bs[pos])
		next := set{}
		for pc, cond := range cur {
			in := &prog.Inst[pc]
			var mc *Term
			switch in.Op {
			case syntax.InstRune, syntax.InstRune1:
				if syntax.Flags(in.Arg)&syntax.FoldCase != 0 {
					panic(unsupported("regexp fold case in " + m.src))
				}
				mc = m.byteInRunes(p, b, in.Rune, false)
			case syntax.InstRuneAny, syntax.InstRuneAnyNotNL:
				panic(unsupported("regexp '.' in " + m.src))
			default:
				continue
			}
			addThread(next, int(in.Out), tt.And(cond, mc), pos+1, map[int]bool{})
		}
		cur = next
	}
	return p.fromBoolTerm(matched)
}
