package main

// Models for time, math/rand, crypto/rand (arbitrary values), misc.

import (
	"go/types"
)

func init() {
	for k, v := range map[string]externalFn{
		"time.Now":             extTimeNow,
		"(time.Time).UnixNano": func(fr *frame, a []value) value { return int64(0) },
		"(time.Time).Unix":     func(fr *frame, a []value) value { return int64(0) },
		"(time.Time).Add":      func(fr *frame, a []value) value { return a[0] },
		"(time.Time).Format":   func(fr *frame, a []value) value { return "<time>" },
		"(time.Time).String":   func(fr *frame, a []value) value { return "<time>" },
		"(time.Time).Before":   func(fr *frame, a []value) value { return false },
		"(time.Time).After":    func(fr *frame, a []value) value { return false },
		"(time.Time).Equal":    func(fr *frame, a []value) value { return true },
		"(time.Time).IsZero":   func(fr *frame, a []value) value { return true },
		"(time.Time).Sub":      func(fr *frame, a []value) value { return int64(0) },
		"time.Unix":            extTimeNow,
		"time.Since":           func(fr *frame, a []value) value { return int64(0) },

		"math/rand.NewSource":           extRandNewSource,
		"(*math/rand.rngSource).Int63":  extRandInt63,
		"(*math/rand.rngSource).Uint64": extRandInt63,
		"(*math/rand.rngSource).Seed":   func(fr *frame, a []value) value { return nil },
		"math/rand.Int63":               extRandInt63,
		"math/rand.Int":                 extRandInt63,
		"math/rand.Intn":                extRandIntn,
	} {
		externals[k] = v
	}
}

func extTimeNow(fr *frame, a []value) value {
	return structure{uint64(0), int64(0), (*value)(nil)}
}

func extRandNewSource(fr *frame, a []value) value {
	rp := fr.i.env.pkgs["math/rand"]
	t := rp.Type("rngSource").Object().Type()
	z := zero(t)
	return iface{t: types.NewPointer(t), v: &z}
}

func (p *Path) freshRand(label string, w int) *Term {
	p.ndCounter++
	v := p.newVar(label, w)
	return v
}

func extRandInt63(fr *frame, a []value) value {
	p := fr.p
	v := p.freshRand("rand63", 64)
	p.assume(p.tt.Cmp(OpUlt, v, p.tt.BV(1<<63, 64)))
	return fromTerm(v, types.Typ[types.Int64])
}

func extRandIntn(fr *frame, a []value) value {
	p := fr.p
	n := asInt64(a[0])
	v := p.freshRand("randn", 64)
	p.assume(p.tt.Cmp(OpUlt, v, p.tt.BV(uint64(n), 64)))
	return fromTerm(v, types.Typ[types.Int])
}
