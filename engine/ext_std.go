package main

// Models for time, math/rand, crypto/rand (arbitrary values), misc.

import (
	"unicode"
	"go/types"
	"math"
)

func init() {
	for k, v := range map[string]externalFn{
		"time.Now":             extTimeNow,
		"(time.Time).UnixNano": func(fr *frame, a []value) value { return int64(0) },
		"(time.Time).Unix":     func(fr *frame, a []value) value { return int64(0) },
		"(time.Time).Add":      func(fr *frame, a []value) value { return a[0] },
		"(time.Time).Format":   func(fr *frame, a []value) value { return "<time>" },
		"(time.Time).String":   func(fr *frame, a []value) value { return "<time>" },
		"(time.Time).Before":   func(fr *frame, a []value) value { return false },
		"(time.Time).After":    func(fr *frame, a []value) value { return false },
		"(time.Time).Equal":    func(fr *frame, a []value) value { return true },
		"(time.Time).IsZero":   func(fr *frame, a []value) value { return true },
		"(time.Time).Sub":      func(fr *frame, a []value) value { return int64(0) },
		"time.Unix":            extTimeNow,
		"time.Since":           func(fr *frame, a []value) value { return int64(0) },
		"time.Until":           func(fr *frame, a []value) value { return int64(1) << 40 },
		"time.AfterFunc":       extTimeAfterFunc,
		"time.NewTimer":        extTimeAfterFunc,
		"(*time.Timer).Stop":   func(fr *frame, a []value) value { return true },
		"(*time.Timer).Reset":  func(fr *frame, a []value) value { return true },
		"(time.Time).Compare":  func(fr *frame, a []value) value { return 0 },

		"(*sync/atomic.Value).Load": func(fr *frame, a []value) value {
			fr.schedPoint("atomic")
			fr.raceAcquire(a[0].(*value), "atomic")
			return (*a[0].(*value)).(structure)[0]
		},
		"(*sync/atomic.Value).Store": func(fr *frame, a []value) value {
			fr.schedPoint("atomic")
			if a[1].(iface).t == nil {
				panic(targetPanic{v: iface{types.Typ[types.String], "sync/atomic: store of nil value into Value"}, site: fr.site()})
			}
			fr.raceAcquire(a[0].(*value), "atomic")
			fr.raceRelease(a[0].(*value), "atomic")
			(*a[0].(*value)).(structure)[0] = a[1]
			fr.p.sched.visOps++
			return nil
		},
		"(*sync/atomic.Value).Swap": func(fr *frame, a []value) value {
			fr.schedPoint("atomic")
			fr.raceAcquire(a[0].(*value), "atomic")
			fr.raceRelease(a[0].(*value), "atomic")
			old := (*a[0].(*value)).(structure)[0]
			(*a[0].(*value)).(structure)[0] = a[1]
			return old
		},
		"(*sync/atomic.Value).CompareAndSwap": func(fr *frame, a []value) value {
			fr.schedPoint("atomic")
			fr.raceAcquire(a[0].(*value), "atomic")
			fr.raceRelease(a[0].(*value), "atomic")
			cur := (*a[0].(*value)).(structure)[0]
			if fr.p.truth(fr.p.eqv(cur, a[1])) {
				(*a[0].(*value)).(structure)[0] = a[2]
				return true
			}
			return false
		},

		"math/rand.NewSource":           extRandNewSource,
		modPath + "/varutil/idutil.initValues": func(fr *frame, a []value) value {
			ob := make([]value, 32)
			for i := range ob {
				ob[i] = uint8(i + 1)
			}
			return tuple{"0123456789abcdef0123456789abcdef", ob, "corrhost"}
		},
		"(*math/rand.rngSource).Int63":  extRandSourceInt63,
		"(*math/rand.rngSource).Uint64": extRandSourceInt63,
		"(*math/rand.rngSource).Seed":   func(fr *frame, a []value) value { return nil },
		"math/rand.Int63":               extRandInt63,
		"math/rand.Int":                 extRandInt63,
		"math/rand.Intn":                extRandIntn,
	} {
		externals[k] = v
	}
}

func extTimeNow(fr *frame, a []value) value {
	return structure{uint64(0), int64(0), (*value)(nil)}
}

func extRandNewSource(fr *frame, a []value) value {
	rp := fr.i.env.pkgs["math/rand"]
	t := rp.Type("rngSource").Object().Type()
	z := zero(t)
	return iface{t: types.NewPointer(t), v: &z}
}

func (p *Path) freshRand(label string, w int) *Term {
	p.ndCounter++
	v := p.newVar(label, w)
	return v
}

// extRandSourceInt63: a rand.Source is not safe for concurrent use; drawing
// from it writes its state (tracked by the race detector).
func extRandSourceInt63(fr *frame, a []value) value {
	if cell, ok := a[0].(*value); ok && cell != nil {
		if r := fr.raceOn(); r != nil && len(fr.p.sched.gs) > 1 {
			// report the site of the call (the model itself has no instruction)
			af := fr
			if af.curInstr == nil && af.caller != nil {
				af = af.caller
			}
			af.raceAccessCell(r, cell, true, 0)
		}
	}
	return extRandInt63(fr, a)
}

func extRandInt63(fr *frame, a []value) value {
	p := fr.p
	if !p.symRand {
		// deterministic pseudo-random stream (formatting ids is not the subject)
		p.randState = p.randState*6364136223846793005 + 1442695040888963407
		return int64(p.randState >> 1)
	}
	v := p.freshRand("rand63", 64)
	p.assume(p.tt.Cmp(OpUlt, v, p.tt.BV(1<<63, 64)))
	return fromTerm(v, types.Typ[types.Int64])
}

func extRandIntn(fr *frame, a []value) value {
	p := fr.p
	n := asInt64(a[0])
	v := p.freshRand("randn", 64)
	p.assume(p.tt.Cmp(OpUlt, v, p.tt.BV(uint64(n), 64)))
	return fromTerm(v, types.Typ[types.Int])
}

// extTimeAfterFunc: timers never fire (time does not advance).
func extTimeAfterFunc(fr *frame, a []value) value {
	tp := fr.i.env.pkgs["time"]
	t := tp.Type("Timer").Object().Type()
	z := zero(t)
	return &z
}

func init() {
	externals["sort.SliceStable"] = extSortSlice
	externals["sort.Slice"] = extSortSlice
	externals["sort.Strings"] = extSortStrings
}

// extSortSlice: stable insertion sort calling the target's less(i, j) and
// swapping elements in place (the real implementation goes through
// reflectlite.Swapper). The resulting order is the unique stable order.
func extSortSlice(fr *frame, a []value) value {
	it := a[0].(iface)
	s, ok := it.v.([]value)
	if !ok {
		panic(unsupported("sort.Slice on non-slice"))
	}
	less := a[1]
	for i := 1; i < len(s); i++ {
		for j := i; j > 0; j-- {
			r := fr.call(fr.curPos(), less, []value{j, j - 1}, nil)
			if !fr.p.truth(r) {
				break
			}
			s[j], s[j-1] = s[j-1], s[j]
		}
	}
	return nil
}

func extSortStrings(fr *frame, a []value) value {
	s := a[0].([]value)
	for i := 1; i < len(s); i++ {
		for j := i; j > 0; j-- {
			if !fr.p.truth(fr.p.strLess(s[j], s[j-1])) {
				break
			}
			s[j], s[j-1] = s[j-1], s[j]
		}
	}
	return nil
}

func init() {
	f1 := func(f func(float64) float64) externalFn {
		return func(fr *frame, a []value) value { return f(a[0].(float64)) }
	}
	f2 := func(f func(float64, float64) float64) externalFn {
		return func(fr *frame, a []value) value { return f(a[0].(float64), a[1].(float64)) }
	}
	for k, v := range map[string]externalFn{
		"math.Abs": f1(math.Abs), "math.Floor": f1(math.Floor), "math.Ceil": f1(math.Ceil), "math.Sqrt": f1(math.Sqrt),
		"math.Log": f1(math.Log), "math.Exp": f1(math.Exp), "math.Trunc": f1(math.Trunc), "math.Log2": f1(math.Log2), "math.Log10": f1(math.Log10),
		"math.Pow": f2(math.Pow), "math.Mod": f2(math.Mod), "math.Max": f2(math.Max), "math.Min": f2(math.Min),
		"math.Float64bits":     func(fr *frame, a []value) value { return math.Float64bits(a[0].(float64)) },
		"math.Float64frombits": func(fr *frame, a []value) value { return math.Float64frombits(a[0].(uint64)) },
		"math.Float32bits":     func(fr *frame, a []value) value { return math.Float32bits(a[0].(float32)) },
		"math.Float32frombits": func(fr *frame, a []value) value { return math.Float32frombits(a[0].(uint32)) },
		"math.Inf":             func(fr *frame, a []value) value { return math.Inf(int(asInt64(a[0]))) },
		"math.NaN":             func(fr *frame, a []value) value { return math.NaN() },
		"math.IsNaN":           func(fr *frame, a []value) value { return math.IsNaN(a[0].(float64)) },
		"math.IsInf":           func(fr *frame, a []value) value { return math.IsInf(a[0].(float64), int(asInt64(a[1]))) },
	} {
		externals[k] = v
	}
}

// unicode predicates: the package's range tables are not initialised in the
// interpreter; the predicates are answered natively for concrete runes and as
// one Bool term over the fixed code-point sets for symbolic ones.
func init() {
	spaces := [][2]uint64{{0x09, 0x0d}, {0x20, 0x20}, {0x85, 0x85}, {0xa0, 0xa0}, {0x1680, 0x1680},
		{0x2000, 0x200a}, {0x2028, 0x2029}, {0x202f, 0x202f}, {0x205f, 0x205f}, {0x3000, 0x3000}}
	inRanges := func(fr *frame, r value, ranges [][2]uint64, native func(rune) bool) value {
		if t, ok := r.(*Term); ok {
			tt := fr.p.tt
			acc := tt.False
			for _, rg := range ranges {
				c := tt.And(tt.Cmp(OpUle, tt.BV(rg[0], t.Width()), t), tt.Cmp(OpUle, t, tt.BV(rg[1], t.Width())))
				acc = tt.Or(acc, c)
			}
			return fr.p.fromBoolTerm(acc)
		}
		return native(rune(asInt64(r)))
	}
	externals["unicode.IsSpace"] = func(fr *frame, a []value) value {
		return inRanges(fr, a[0], spaces, unicode.IsSpace)
	}
}
