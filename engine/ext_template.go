package main

// Definition-table model of html/template and text/template. A template set
// is a table name -> body; New, Funcs (no-op), Clone (deep copy), Parse
// (real text/template/parse run natively over the concrete text; adds or
// replaces the definitions in the receiver's set), Lookup, Name,
// DefinedTemplates, Templates, Execute/ExecuteTemplate for bodies without
// actions. html/template's "escaped" state is modelled (after a template of a
// set has executed, Clone and Parse on that set are refused); the libraries'
// escaping/execution semantics proper are outside the model.

import (
	"fmt"
	"go/types"
	"sort"
	"strings"
	"text/template/parse"
)

type tmplSet struct {
	defs map[string]string
	// executed (html/template only): once a template of the set has executed
	// the set is escaped: Clone and Parse are refused from then on
	executed bool
}

type tmplObj struct {
	name string
	set  *tmplSet
}

func tmplOf(v value) *tmplObj {
	p, ok := v.(*value)
	if !ok || p == nil {
		return nil
	}
	st, ok := (*p).(structure)
	if !ok || len(st) == 0 {
		return nil
	}
	n, ok := st[0].(*native)
	if !ok {
		return nil
	}
	return n.v.(*tmplObj)
}

func tmplValue(o *tmplObj) value {
	var cell value = structure{&native{kind: "tmpl", v: o}}
	return &cell
}

func (fr *frame) newError(msg string) value {
	ep := fr.i.env.pkgs["errors"]
	return fr.call(fr.curPos(), ep.Func("New"), []value{msg}, nil)
}

func init() {
	for _, pkg := range []string{"html/template", "text/template"} {
		pkg := pkg
		T := "(*" + pkg + ".Template)."
		externals[pkg+".New"] = func(fr *frame, a []value) value {
			name, ok := a[0].(string)
			if !ok {
				panic(unsupported("template.New with symbolic name"))
			}
			return tmplValue(&tmplObj{name: name, set: &tmplSet{defs: map[string]string{}}})
		}
		externals[T+"Funcs"] = func(fr *frame, a []value) value { return a[0] }
		externals[T+"Option"] = func(fr *frame, a []value) value { return a[0] }
		externals[T+"Delims"] = func(fr *frame, a []value) value { return a[0] }
		externals[T+"Name"] = func(fr *frame, a []value) value {
			o := tmplOf(a[0])
			if o == nil {
				fr.rtPanic("invalid memory address or nil pointer dereference")
			}
			return o.name
		}
		externals[T+"Clone"] = func(fr *frame, a []value) value {
			o := tmplOf(a[0])
			if o == nil {
				fr.rtPanic("invalid memory address or nil pointer dereference")
			}
			if o.set.executed {
				return tuple{(*value)(nil), fr.newError(fmt.Sprintf("html/template: cannot Clone %q after it has executed", o.name))}
			}
			ns := &tmplSet{defs: map[string]string{}}
			for k, v := range o.set.defs {
				ns.defs[k] = v
			}
			return tuple{tmplValue(&tmplObj{name: o.name, set: ns}), iface{}}
		}
		externals[T+"New"] = func(fr *frame, a []value) value {
			o := tmplOf(a[0])
			name, ok := a[1].(string)
			if !ok {
				panic(unsupported("Template.New with symbolic name"))
			}
			return tmplValue(&tmplObj{name: name, set: o.set})
		}
		externals[T+"Parse"] = func(fr *frame, a []value) value {
			o := tmplOf(a[0])
			if o == nil {
				fr.rtPanic("invalid memory address or nil pointer dereference")
			}
			text, ok := a[1].(string)
			if !ok {
				panic(unsupported("Template.Parse with symbolic text"))
			}
			if o.set.executed {
				return tuple{(*value)(nil), fr.newError(fmt.Sprintf("html/template: cannot Parse after Execute"))}
			}
			tr := parse.New(o.name)
			tr.Mode = parse.SkipFuncCheck
			treeSet := map[string]*parse.Tree{}
			if _, err := tr.Parse(text, "", "", treeSet); err != nil {
				return tuple{(*value)(nil), fr.newError(err.Error())}
			}
			for name, t := range treeSet {
				body := ""
				if t.Root != nil {
					body = t.Root.String()
				}
				if name == o.name && strings.TrimSpace(body) == "" {
					if _, exists := o.set.defs[name]; exists {
						continue // an empty top-level body does not replace
					}
					continue
				}
				o.set.defs[name] = body
			}
			fr.p.sched.visOps++
			return tuple{a[0], iface{}}
		}
		externals[T+"Lookup"] = func(fr *frame, a []value) value {
			o := tmplOf(a[0])
			name, ok := a[1].(string)
			if !ok {
				panic(unsupported("Template.Lookup with symbolic name"))
			}
			if _, ok := o.set.defs[name]; !ok {
				return (*value)(nil)
			}
			return tmplValue(&tmplObj{name: name, set: o.set})
		}
		externals[T+"DefinedTemplates"] = func(fr *frame, a []value) value {
			o := tmplOf(a[0])
			var names []string
			for k := range o.set.defs {
				names = append(names, fmt.Sprintf("%q", k))
			}
			sort.Strings(names)
			if len(names) == 0 {
				return ""
			}
			return "; defined templates are: " + strings.Join(names, ", ")
		}
		exec := func(fr *frame, o *tmplObj, w value, name string) value {
			body, ok := o.set.defs[name]
			if !ok {
				return fr.newError(fmt.Sprintf("template: no template %q associated with template %q", name, o.name))
			}
			if strings.Contains(body, "{{") {
				panic(unsupported("executing a template body with actions (outside the definition-table model)"))
			}
			if pkg == "html/template" {
				o.set.executed = true
			}
			wi := w.(iface)
			// call w.Write(body)
			ms := fr.i.prog.MethodSets.MethodSet(wi.t)
			for i := 0; i < ms.Len(); i++ {
				if ms.At(i).Obj().Name() == "Write" {
					fn := fr.i.prog.MethodValue(ms.At(i))
					fr.call(fr.curPos(), fn, []value{wi.v, strBytes(body)}, nil)
					return iface{}
				}
			}
			panic(unsupported("template.Execute: writer without Write"))
		}
		externals[T+"ExecuteTemplate"] = func(fr *frame, a []value) value {
			o := tmplOf(a[0])
			if o == nil {
				fr.rtPanic("invalid memory address or nil pointer dereference")
			}
			name, ok := a[2].(string)
			if !ok {
				panic(unsupported("ExecuteTemplate with symbolic name"))
			}
			return exec(fr, o, a[1], name)
		}
		externals[T+"Execute"] = func(fr *frame, a []value) value {
			o := tmplOf(a[0])
			if o == nil {
				fr.rtPanic("invalid memory address or nil pointer dereference")
			}
			return exec(fr, o, a[1], o.name)
		}
	}
}

var _ = types.Typ
