package main

// Path: the state of one symbolic execution (one decision vector).

import (
	"fmt"
	"sort"
	"strings"
)

// abortPath is panicked to end a path without a verdict on the target.
type abortPath struct {
	kind string // "infeasible", "unsupported", "budget", "unwind", "engine", "halt"
	msg  string
}

func unsupported(msg string) abortPath { return abortPath{"unsupported", msg} }

type ndRec struct {
	Label string
	Kind  string // bool, byte, int, choose, len
	Term  *Term  // nil when concrete
	Conc  int64
}

type Violation struct {
	Harness  string
	Label    string // assert label or "panic:<site>"
	Site     string
	Msg      string
	ND       []ndVal
	Trace    []int64
	Events   []string
	Schedule []int
	Conc     bool // more than one goroutine existed on the path
}

type ndVal struct {
	Label string `json:"label"`
	Kind  string `json:"kind"`
	Value int64  `json:"value"`
}

type Path struct {
	w      *Worker
	tt     *TermTable
	s      *Solver
	prefix []int64
	pos    int
	trace  []int64
	kinds  []byte // kind of each decision (b=branch, c=choose, s=sched)

	vars       []*Term
	varSet     map[*Term]bool
	ndlog      []ndRec
	ndCounter  int
	model      map[*Term]uint64
	modelValid bool

	steps      int
	maxSteps   int
	maxDepth   int
	unwind     int
	pending    []workItem
	violations []Violation
	reach      map[string]int
	events     []string
	unknownGuard bool
	mapOrder   bool
	harness    string
	lits       map[*Term]bool // literals decided on this path (cond -> value)
	symRand    bool
	cs         *cryptoState
	randState  uint64
	params     map[string]int

	pcCount int
	sched   *scheduler
	numCPU  int
	stubs   map[string]bool
	funcs   map[string]int
	assumes int
}

func (p *Path) assertPC(t *Term) {
	if t.op == OpConst {
		if t.k == 0 {
			panic(abortPath{"infeasible", "assumed false"})
		}
		return
	}
	p.s.Assert(t)
	p.pcCount++
	if p.lits == nil {
		p.lits = map[*Term]bool{}
	}
	if t.op == OpNot {
		p.lits[t.a] = false
	} else {
		p.lits[t] = true
	}
	if p.modelValid {
		if t.Eval(p.model, map[*Term]uint64{}) != 1 {
			p.modelValid = false
		}
	}
}

// feasible decides whether PC ∧ t is satisfiable.
func (p *Path) feasible(t *Term) (SatResult, map[*Term]uint64) {
	if t.op == OpConst {
		if t.k != 0 {
			return Sat, nil
		}
		return Unsat, nil
	}
	if p.modelValid && t.Eval(p.model, map[*Term]uint64{}) == 1 {
		return Sat, nil
	}
	r, m := p.s.CheckModel(t, p.vars)
	return r, m
}

func (p *Path) adopt(m map[*Term]uint64) {
	if m != nil {
		p.model = m
		p.modelValid = true
	}
}

// ensureModel makes sure a model of the PC is available.
func (p *Path) ensureModel() bool {
	if p.modelValid {
		return true
	}
	r, m := p.s.CheckModel(nil, p.vars)
	if r == Sat {
		p.adopt(m)
		return true
	}
	if r == Unsat {
		panic(abortPath{"infeasible", "pc unsat"})
	}
	return false
}

// decide forks on a symbolic condition.
func (p *Path) decide(cond *Term) bool {
	if cond.op == OpConst {
		return cond.k != 0
	}
	if !cond.IsBool() {
		panic("decide: non-bool term")
	}
	ncond := p.tt.Not(cond)
	// a literal already decided on this path needs neither a query nor a
	// decision-vector entry
	if v, ok := p.lits[cond]; ok {
		return v
	}
	if cond.op == OpNot {
		if v, ok := p.lits[cond.a]; ok {
			return !v
		}
	}
	if p.pos < len(p.prefix) {
		alt := p.prefix[p.pos]
		p.pos++
		p.trace = append(p.trace, alt)
		p.kinds = append(p.kinds, 'b')
		if alt == 0 {
			p.assertPC(cond)
			return true
		}
		p.assertPC(ncond)
		return false
	}
	rT, mT := p.feasible(cond)
	rF, mF := p.feasible(ncond)
	if rT == Unknown || rF == Unknown {
		p.unknownGuard = true
		p.w.res.noteUnknown()
	}
	okT, okF := rT != Unsat, rF != Unsat
	p.pos++
	p.w.res.choice('b')
	switch {
	case okT && okF:
		p.pending = append(p.pending, appendCopy(p.trace, 1))
		p.trace = append(p.trace, 0)
		p.kinds = append(p.kinds, 'b')
		p.assertPC(cond)
		p.adopt(mT)
		return true
	case okT:
		p.trace = append(p.trace, 0)
		p.kinds = append(p.kinds, 'b')
		p.assertPC(cond)
		p.adopt(mT)
		return true
	case okF:
		p.trace = append(p.trace, 1)
		p.kinds = append(p.kinds, 'b')
		p.assertPC(ncond)
		p.adopt(mF)
		return false
	}
	panic(abortPath{"infeasible", "both sides unsat"})
}

// workItem is an unexplored alternative: the decisions of base followed by
// alt. base shares the backing array of the path that discovered it (that
// region is never written again), so a path of depth d costs O(d) memory for
// all its pending alternatives instead of O(d²).
type workItem struct {
	base []int64
	alt  int64
}

func (w workItem) prefix() []int64 {
	n := make([]int64, len(w.base)+1)
	copy(n, w.base)
	n[len(w.base)] = w.alt
	return n
}

func appendCopy(tr []int64, alt int64) workItem {
	return workItem{base: tr[:len(tr):len(tr)], alt: alt}
}

// choose is an n-way pure nondeterministic choice (all alternatives feasible).
func (p *Path) choose(kind string, n int) int {
	if n <= 1 {
		return 0
	}
	k := byte('c')
	if kind == "sched" {
		k = 's'
	}
	if p.pos < len(p.prefix) {
		alt := p.prefix[p.pos]
		p.pos++
		p.trace = append(p.trace, alt)
		p.kinds = append(p.kinds, k)
		return int(alt)
	}
	p.pos++
	p.w.res.choice(k)
	for i := n - 1; i >= 1; i-- {
		p.pending = append(p.pending, appendCopy(p.trace, int64(i)))
	}
	p.trace = append(p.trace, 0)
	p.kinds = append(p.kinds, k)
	return 0
}

// chooseGuarded is an n-way choice with a guard per alternative.
func (p *Path) chooseGuarded(guards []*Term) int {
	if p.pos < len(p.prefix) {
		alt := p.prefix[p.pos]
		p.pos++
		p.trace = append(p.trace, alt)
		p.kinds = append(p.kinds, 'b')
		p.assertPC(guards[alt])
		return int(alt)
	}
	first := -1
	var firstModel map[*Term]uint64
	var feas []int
	for i, g := range guards {
		r, m := p.feasible(g)
		if r == Unknown {
			p.unknownGuard = true
			p.w.res.noteUnknown()
		}
		if r != Unsat {
			if first < 0 {
				first = i
				firstModel = m
			}
			feas = append(feas, i)
		}
	}
	if first < 0 {
		panic(abortPath{"infeasible", "no alternative feasible"})
	}
	p.pos++
	p.w.res.choice('b')
	for j := len(feas) - 1; j >= 1; j-- {
		p.pending = append(p.pending, appendCopy(p.trace, int64(feas[j])))
	}
	p.trace = append(p.trace, int64(first))
	p.kinds = append(p.kinds, 'b')
	p.assertPC(guards[first])
	p.adopt(firstModel)
	return first
}

// concretize forks over the feasible values of t and returns one. The
// decision recorded in the trace is the value itself, so a prefix replay
// needs no solver call.
func (p *Path) concretize(t *Term) uint64 {
	if t.op == OpConst {
		return t.k
	}
	if p.pos < len(p.prefix) {
		v := uint64(p.prefix[p.pos])
		p.pos++
		p.trace = append(p.trace, int64(v))
		p.kinds = append(p.kinds, 'v')
		p.assertPC(p.tt.Eq(t, p.tt.BV(v, t.Width())))
		return v
	}
	var vals []uint64
	block := p.tt.True
	for {
		if len(vals) > 1024 {
			panic(abortPath{"budget", "concretize: more than 1024 feasible values"})
		}
		var v uint64
		if len(vals) == 0 && p.modelValid {
			v = t.Eval(p.model, map[*Term]uint64{})
		} else {
			r, m := p.s.CheckModel(block, p.vars)
			if r == Unsat {
				break
			}
			if r == Unknown {
				p.unknownGuard = true
				p.w.res.noteUnknown()
				p.w.res.inconclusive("solver unknown in concretize")
				break
			}
			v = t.Eval(m, map[*Term]uint64{})
		}
		vals = append(vals, v)
		block = p.tt.And(block, p.tt.Not(p.tt.Eq(t, p.tt.BV(v, t.Width()))))
	}
	if len(vals) == 0 {
		panic(abortPath{"infeasible", "concretize: no value"})
	}
	sort.Slice(vals, func(i, j int) bool { return vals[i] < vals[j] })
	p.pos++
	p.w.res.choice('v')
	for j := len(vals) - 1; j >= 1; j-- {
		p.pending = append(p.pending, appendCopy(p.trace, int64(vals[j])))
	}
	p.trace = append(p.trace, int64(vals[0]))
	p.kinds = append(p.kinds, 'v')
	p.assertPC(p.tt.Eq(t, p.tt.BV(vals[0], t.Width())))
	return vals[0]
}

// newVar creates a fresh symbolic variable.
func (p *Path) newVar(label string, w int) *Term {
	p.ndCounter++
	name := fmt.Sprintf("v%d_%s", p.ndCounter, sanitize(label))
	v := p.tt.Var(name, w)
	if !p.varSet[v] {
		p.varSet[v] = true
		p.vars = append(p.vars, v)
	}
	return v
}

func sanitize(s string) string {
	var sb strings.Builder
	for _, r := range s {
		if r >= 'a' && r <= 'z' || r >= 'A' && r <= 'Z' || r >= '0' && r <= '9' || r == '_' {
			sb.WriteRune(r)
		} else {
			sb.WriteByte('_')
		}
	}
	return sb.String()
}

func (p *Path) snapshotND() []ndVal {
	memo := map[*Term]uint64{}
	out := make([]ndVal, len(p.ndlog))
	for i, r := range p.ndlog {
		v := r.Conc
		if r.Term != nil {
			u := r.Term.Eval(p.model, memo)
			if r.Kind == "int" {
				v = int64(u)
			} else {
				v = int64(u)
			}
		}
		out[i] = ndVal{r.Label, r.Kind, v}
	}
	return out
}

// violate records a violation under the current model (which must satisfy
// PC ∧ ¬property).
func (p *Path) violate(label, site, msg string, m map[*Term]uint64) {
	if m != nil {
		p.model = m
	}
	v := Violation{Harness: p.harness, Label: label, Site: site, Msg: msg,
		ND: p.snapshotND(), Trace: append([]int64(nil), p.trace...),
		Events: append([]string(nil), p.events...)}
	if p.sched != nil {
		v.Schedule = append([]int(nil), p.sched.history...)
		v.Conc = len(p.sched.gs) > 1
	}
	p.violations = append(p.violations, v)
}

// assertHolds implements nd.Assert.
func (p *Path) assertHolds(cond value, label, site string) {
	p.w.res.obligation()
	switch c := cond.(type) {
	case bool:
		if c {
			return
		}
		if !p.ensureModel() {
			p.unknownGuard = true
		}
		p.violate(label, site, "assertion failed", nil)
		panic(abortPath{"halt", "assert false"})
	case *Term:
		r, m := p.s.CheckModel(p.tt.Not(c), p.vars)
		switch r {
		case Sat:
			save, saveValid := p.model, p.modelValid
			p.violate(label, site, "assertion can fail", m)
			p.model, p.modelValid = save, saveValid
			// continue under cond if feasible
			rc, mc := p.feasible(c)
			if rc == Unsat {
				panic(abortPath{"halt", "assert always false here"})
			}
			p.assertPC(c)
			p.adopt(mc)
		case Unknown:
			p.unknownGuard = true
			p.w.res.noteUnknown()
			p.w.res.inconclusive("solver unknown at assert " + label)
			p.assertPC(c)
		case Unsat:
			// holds; cond is implied by PC — no need to assert it
		}
	}
}

func (p *Path) assume(cond value) {
	p.assumes++
	switch c := cond.(type) {
	case bool:
		if !c {
			panic(abortPath{"infeasible", "assume(false)"})
		}
	case *Term:
		r, m := p.feasible(c)
		if r == Unsat {
			panic(abortPath{"infeasible", "assume"})
		}
		p.assertPC(c)
		p.adopt(m)
	}
}

func sortedKeys(m map[string]int) []string {
	ks := make([]string, 0, len(m))
	for k := range m {
		ks = append(ks, k)
	}
	sort.Strings(ks)
	return ks
}
