//go:build verif

// Package libcheck validates the engine's treatment of library code the
// harnesses lean on: results of strings/bytes/strconv/fmt/utf8 functions and
// of the built-in string, slice and map operations on symbolic values are
// compared, for every value within the bound, with naive byte-loop references
// written in plain Go (interpreted too, but built only from indexing,
// comparison and append). A disagreement is a violation; its native replay
// tells a model error (does not reproduce) from a reference error.
package libcheck

import (
	"bytes"
	"fmt"
	"sort"
	"strconv"
	"strings"
	"unicode"
	"unicode/utf8"

	"github.com/goatcms/goatcore/zzverif/nd"
)

func refIndex(s, sub string) int {
	for i := 0; i+len(sub) <= len(s); i++ {
		ok := true
		for j := 0; j < len(sub); j++ {
			if s[i+j] != sub[j] {
				ok = false
				break
			}
		}
		if ok {
			return i
		}
	}
	return -1
}

func refSplit(s string, sep byte) []string {
	var out []string
	start := 0
	for i := 0; i <= len(s); i++ {
		if i == len(s) || s[i] == sep {
			out = append(out, s[start:i])
			start = i + 1
		}
	}
	return out
}

func inSet(c byte, set string) bool {
	for i := 0; i < len(set); i++ {
		if set[i] == c {
			return true
		}
	}
	return false
}

func refTrim(s, set string) string {
	lo, hi := 0, len(s)
	for lo < hi && inSet(s[lo], set) {
		lo++
	}
	for hi > lo && inSet(s[hi-1], set) {
		hi--
	}
	return s[lo:hi]
}

func sameStrs(a, b []string) bool {
	if len(a) != len(b) {
		return false
	}
	for i := range a {
		if a[i] != b[i] {
			return false
		}
	}
	return true
}

// ZZModelStrings: strings/bytes functions on symbolic ASCII-or-not bytes.
func ZZModelStrings() {
	n := nd.Param("N", 3)
	s := nd.StringUpTo("s", n)
	sub := nd.StringUpTo("sub", 2)
	nd.Assert(strings.Index(s, sub) == refIndex(s, sub), "MODELS/strings.Index")
	nd.Assert(strings.Contains(s, sub) == (refIndex(s, sub) >= 0), "MODELS/strings.Contains")
	nd.Assert(strings.HasPrefix(s, sub) == (len(s) >= len(sub) && s[:len(sub)] == sub), "MODELS/strings.HasPrefix")
	nd.Assert(strings.HasSuffix(s, sub) == (len(s) >= len(sub) && s[len(s)-len(sub):] == sub), "MODELS/strings.HasSuffix")
	c := nd.Byte("c")
	ib := -1
	for i := 0; i < len(s); i++ {
		if s[i] == c {
			ib = i
			break
		}
	}
	nd.Assert(strings.IndexByte(s, c) == ib, "MODELS/strings.IndexByte")
	nd.Assert(bytes.IndexByte([]byte(s), c) == ib, "MODELS/bytes.IndexByte")
	lb := -1
	for i := len(s) - 1; i >= 0; i-- {
		if s[i] == c {
			lb = i
			break
		}
	}
	nd.Assert(strings.LastIndexByte(s, c) == lb, "MODELS/strings.LastIndexByte")
	nd.Assert(sameStrs(strings.Split(s, ","), refSplit(s, ',')), "MODELS/strings.Split")
	nd.Assert(strings.Trim(s, " \t\n") == refTrim(s, " \t\n"), "MODELS/strings.Trim")
	nd.Assert(strings.Join(refSplit(s, ','), ",") == s, "MODELS/strings.Join")
	cnt := 0
	for i := 0; i < len(s); i++ {
		if s[i] == ',' {
			cnt++
		}
	}
	nd.Assert(strings.Count(s, ",") == cnt, "MODELS/strings.Count")
	rep := ""
	for i := 0; i < len(s); i++ {
		if s[i] == 'a' {
			rep += "xy"
		} else {
			rep += s[i : i+1]
		}
	}
	nd.Assert(strings.Replace(s, "a", "xy", -1) == rep, "MODELS/strings.Replace")
	nd.Assert(bytes.Equal([]byte(s), []byte(sub)) == (s == sub), "MODELS/bytes.Equal")
	cmp := 0
	if s < sub {
		cmp = -1
	} else if s > sub {
		cmp = 1
	}
	nd.Assert(strings.Compare(s, sub) == cmp, "MODELS/strings.Compare")
	var sb strings.Builder
	sb.WriteString(s)
	sb.WriteByte(c)
	nd.Assert(sb.String() == s+string([]byte{c}), "MODELS/strings.Builder")
	var bb bytes.Buffer
	bb.WriteString(sub)
	bb.Write([]byte(s))
	nd.Assert(bb.String() == sub+s, "MODELS/bytes.Buffer")
	nd.Reach("MODELS/strings-end")
}

// refDecode is a straightforward UTF-8 decoder (RFC 3629: shortest form, no
// surrogates, <= U+10FFFF); invalid input yields (U+FFFD, 1).
func refDecode(b []byte) (rune, int) {
	if len(b) == 0 {
		return utf8.RuneError, 0
	}
	c := b[0]
	if c < 0x80 {
		return rune(c), 1
	}
	cont := func(x byte) bool { return x&0xc0 == 0x80 }
	switch {
	case c >= 0xc2 && c <= 0xdf:
		if len(b) >= 2 && cont(b[1]) {
			return rune(c&0x1f)<<6 | rune(b[1]&0x3f), 2
		}
	case c >= 0xe0 && c <= 0xef:
		if len(b) >= 3 && cont(b[1]) && cont(b[2]) {
			r := rune(c&0x0f)<<12 | rune(b[1]&0x3f)<<6 | rune(b[2]&0x3f)
			if r >= 0x800 && !(r >= 0xd800 && r <= 0xdfff) {
				return r, 3
			}
		}
	case c >= 0xf0 && c <= 0xf4:
		if len(b) >= 4 && cont(b[1]) && cont(b[2]) && cont(b[3]) {
			r := rune(c&0x07)<<18 | rune(b[1]&0x3f)<<12 | rune(b[2]&0x3f)<<6 | rune(b[3]&0x3f)
			if r >= 0x10000 && r <= 0x10ffff {
				return r, 4
			}
		}
	}
	return utf8.RuneError, 1
}

// ZZModelUTF8: range-over-string, string(rune) and
// utf8.DecodeRune on arbitrary bytes.
func ZZModelUTF8() {
	n := nd.Param("N", 3)
	b := nd.BytesUpTo("b", n)
	// bytes range over the boundary values of the UTF-8 encoding (the decoder
	// tables are indexed by the byte: every feasible value is a path)
	for _, c := range b {
		ok := false
		for _, v := range []byte{0x00, 0x41, 0x7f, 0x80, 0x8f, 0x90, 0x9f, 0xa0, 0xbf, 0xc0, 0xc1, 0xc2, 0xdf, 0xe0, 0xe1, 0xed, 0xef, 0xf0, 0xf1, 0xf4, 0xf5, 0xff} {
			ok = nd.Or(ok, c == v)
		}
		nd.Assume(ok)
	}
	s := string(b)
	var want []rune
	var offs []int
	for i := 0; i < len(b); {
		r, sz := refDecode(b[i:])
		want = append(want, r)
		offs = append(offs, i)
		i += sz
	}
	k := 0
	for i, r := range s {
		nd.Assert(k < len(want) && r == want[k] && i == offs[k], "MODELS/range-string")
		k++
	}
	nd.Assert(k == len(want), "MODELS/range-string-count")
	nd.Assert(utf8.RuneCountInString(s) == len(want), "MODELS/utf8.RuneCountInString")
	if len(b) > 0 {
		r, sz := utf8.DecodeRune(b)
		wr, wsz := refDecode(b)
		nd.Assert(r == wr && sz == wsz, "MODELS/utf8.DecodeRune")
	}
	// encoding: string(rune(c)) of one byte value is 1 byte below 0x80, else 2
	c := nd.Byte("c")
	enc := string(rune(c))
	if c < 0x80 {
		nd.Assert(len(enc) == 1 && enc[0] == c, "MODELS/string(rune)-ascii")
	} else {
		nd.Assert(len(enc) == 2 && enc[0] == 0xc0|c>>6 && enc[1] == 0x80|c&0x3f, "MODELS/string(rune)-latin1")
	}
	nd.Reach("MODELS/utf8-end")
}

// ZZModelFmt: the mini-formatter keeps symbolic string operands byte for byte
// (symbolic scalars are rendered as an opaque byte, see DESIGN §5, and are
// not compared here); strconv.Itoa runs from its real code.
func ZZModelFmt() {
	n := nd.Param("N", 2)
	s := nd.StringUpTo("s", n)
	nd.Assert(fmt.Sprintf("%s:%d", s, 42) == s+":42", "MODELS/Sprintf-s-d")
	nd.Assert(fmt.Sprintf("[%v]%%", s) == "["+s+"]%", "MODELS/Sprintf-v")
	nd.Assert(fmt.Sprint(s, "x") == s+"x", "MODELS/Sprint")
	nd.Assert(fmt.Errorf("e %s", s).Error() == "e "+s, "MODELS/Errorf")
	nd.Assert(fmt.Sprintf("%s", []byte(s)) == s, "MODELS/Sprintf-bytes")
	nd.Assert(fmt.Sprintf("%v", fmt.Errorf("w%s", s)) == "w"+s, "MODELS/Sprintf-error-operand")
	i := nd.IntRange("i", -3, 12)
	want := ""
	switch {
	case i < 0 && i > -10:
		want = "-" + string([]byte{byte('0' - i)})
	case i >= 0 && i < 10:
		want = string([]byte{byte('0' + i)})
	default:
		want = "1" + string([]byte{byte('0' + i - 10)})
	}
	nd.Assert(strconv.Itoa(i) == want, "MODELS/strconv.Itoa")
	nd.Reach("MODELS/fmt-end")
}

// ZZModelMapSlice: maps with symbolic string keys, append/copy/slicing with
// capacity effects, sort.
func ZZModelMapSlice() {
	n := nd.Param("N", 2)
	k1, k2 := nd.StringUpTo("k1", n), nd.StringUpTo("k2", n)
	m := map[string]int{}
	m[k1] = 1
	m[k2] = 2
	if k1 == k2 {
		nd.Assert(len(m) == 1 && m[k1] == 2, "MODELS/map-same-key")
	} else {
		nd.Assert(len(m) == 2 && m[k1] == 1 && m[k2] == 2, "MODELS/map-distinct-keys")
	}
	delete(m, k1)
	_, has := m[k2]
	nd.Assert(has == (k1 != k2), "MODELS/map-delete")
	cnt := 0
	for range m {
		cnt++
	}
	nd.Assert(cnt == len(m), "MODELS/map-range")
	// slices: aliasing through shared backing arrays
	a := make([]byte, 2, 4)
	a[0], a[1] = nd.Byte("a0"), nd.Byte("a1")
	b := append(a, 7) // fits: shares the backing array
	c := append(a, 9) // overwrites b[2]
	nd.Assert(b[2] == 9 && c[2] == 9 && len(a) == 2 && cap(b) == 4, "MODELS/append-shares-backing")
	d := append(b[:3:3], 5) // full slice expression: must reallocate
	d[0] = a[0] + 1
	nd.Assert(a[0] != d[0], "MODELS/append-realloc-detaches")
	e := make([]byte, 1)
	nd.Assert(copy(e, a) == 1 && e[0] == a[0], "MODELS/copy")
	xs := []string{k2, k1, "m"}
	sort.Strings(xs)
	nd.Assert(xs[0] <= xs[1] && xs[1] <= xs[2], "MODELS/sort.Strings")
	ys := []int{nd.IntRange("y0", 0, 3), nd.IntRange("y1", 0, 3), nd.IntRange("y2", 0, 3)}
	sum := ys[0] + ys[1] + ys[2]
	sort.Slice(ys, func(i, j int) bool { return ys[i] < ys[j] })
	nd.Assert(ys[0] <= ys[1] && ys[1] <= ys[2] && ys[0]+ys[1]+ys[2] == sum, "MODELS/sort.Slice")
	nd.Reach("MODELS/mapslice-end")
}

// ZZModelUnicode: unicode.IsSpace / strings.TrimSpace on symbolic bytes
// against the byte-level definition for ASCII and Latin-1 input.
func ZZModelUnicode() {
	c := nd.Byte("c")
	want := nd.Or(nd.Or(nd.And(c >= 9, c <= 13), c == ' '), nd.Or(c == 0x85, c == 0xa0))
	nd.Assert(unicode.IsSpace(rune(c)) == want, "MODELS/unicode.IsSpace")
	s := nd.StringUpTo("s", nd.Param("N", 3))
	for i := 0; i < len(s); i++ {
		// no lead byte of a three-byte space (the model declines those)
		nd.Assume(nd.Or(s[i] < 0xe1, s[i] > 0xe3))
	}
	// reference: ASCII spaces and the two-byte spaces C2 85, C2 A0
	lo, hi := 0, len(s)
	for lo < hi {
		if inSet(s[lo], " \t\n\v\f\r") {
			lo++
		} else if lo+1 < hi && s[lo] == 0xc2 && (s[lo+1] == 0x85 || s[lo+1] == 0xa0) {
			lo += 2
		} else {
			break
		}
	}
	for hi > lo {
		if inSet(s[hi-1], " \t\n\v\f\r") {
			hi--
		} else if hi-2 >= lo && s[hi-2] == 0xc2 && (s[hi-1] == 0x85 || s[hi-1] == 0xa0) {
			hi -= 2
		} else {
			break
		}
	}
	nd.Assert(strings.TrimSpace(s) == s[lo:hi], "MODELS/strings.TrimSpace")
	// strings.Fields: same separators
	var words []string
	start := -1
	for i := 0; i < len(s); {
		w := 0
		if inSet(s[i], " \t\n\v\f\r") {
			w = 1
		} else if i+1 < len(s) && s[i] == 0xc2 && (s[i+1] == 0x85 || s[i+1] == 0xa0) {
			w = 2
		}
		if w > 0 {
			if start >= 0 {
				words = append(words, s[start:i])
				start = -1
			}
			i += w
			continue
		}
		if start < 0 {
			start = i
		}
		i++
	}
	if start >= 0 {
		words = append(words, s[start:])
	}
	got := strings.Fields(s)
	nd.Assert(len(got) == len(words), "MODELS/strings.Fields-count")
	if len(got) == len(words) {
		for i := range got {
			nd.Assert(got[i] == words[i], "MODELS/strings.Fields-words")
		}
	}
	nd.Reach("MODELS/unicode-end")
}

// ZZModelFprintf: the Fprint family writes what Sprintf builds; a '%' among
// symbolic format bytes makes the result opaque (not compared here).
func ZZModelFprintf() {
	s := nd.StringUpTo("s", nd.Param("N", 2))
	for i := 0; i < len(s); i++ {
		nd.Assume(s[i] != '%')
	}
	var sb strings.Builder
	n, err := fmt.Fprintf(&sb, "<%s>", s)
	nd.Assert(err == nil && n == len(s)+2 && sb.String() == "<"+s+">", "MODELS/Fprintf")
	sb.Reset()
	fmt.Fprintf(&sb, s+"\n")
	nd.Assert(sb.String() == s+"\n", "MODELS/Fprintf-symbolic-format-without-percent")
	sb.Reset()
	fmt.Fprint(&sb, s, "x")
	nd.Assert(sb.String() == s+"x", "MODELS/Fprint")
	nd.Reach("MODELS/fprintf-end")
}
