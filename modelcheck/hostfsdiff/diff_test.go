//go:build verif

// Native differential validation of the host file-system model
// (harness/lib/hostfs.go, copied next to this file by run.sh) against the
// real operating system: every sequence of up to DEPTH operations from a small
// alphabet over a small path set is applied to both; error-ness of every call,
// data read, listings and the whole resulting tree must agree.
package hostfsdiff

import (
	"fmt"
	"io"
	"os"
	"path/filepath"
	"sort"
	"strings"
	"testing"
)

type op struct {
	kind int
	path string
}

const (
	kMkdirAll = iota
	kWriteFile
	kRemove
	kRemoveAll
	kReadFile
	kReadDir
	kStat
	kCreateWrite // OpenFile(O_WRONLY|O_CREATE|O_TRUNC) + Write + Close
	kAppend      // OpenFile(O_WRONLY|O_APPEND) + Write + Close
	kOpenRead    // Open + Read(2 bytes twice) + Close
	kExcl        // OpenFile(O_WRONLY|O_CREATE|O_EXCL) + Close
	kWalk
	nKinds
)

var kindName = []string{"MkdirAll", "WriteFile", "Remove", "RemoveAll", "ReadFile", "ReadDir", "Stat", "CreateWrite", "Append", "OpenRead", "Excl", "Walk"}

// lexical paths only (the model resolves ".." lexically, see DESIGN §5); the
// physical-".." forms are exercised separately in TestDotDotDeviation.
var paths = []string{"a", "a/b", "a/f", "f", "a/b/g", "f/x", "./a//b/", "a/./f", "f/", "a/."}

type sys interface {
	apply(o op) string
	snapshot() string
}

// ---------------------------------------------------------------- real OS
type realSys struct{ base string }

func e(err error) string {
	if err == nil {
		return "ok"
	}
	return "err"
}

func (r realSys) p(p string) string { return r.base + "/" + p }

func (r realSys) apply(o op) string {
	p := r.p(o.path)
	switch o.kind {
	case kMkdirAll:
		return e(os.MkdirAll(p, 0755))
	case kWriteFile:
		return e(os.WriteFile(p, []byte("W"), 0644))
	case kRemove:
		return e(os.Remove(p))
	case kRemoveAll:
		return e(os.RemoveAll(p))
	case kReadFile:
		d, err := os.ReadFile(p)
		return e(err) + ":" + string(d)
	case kReadDir:
		l, err := os.ReadDir(p)
		var names []string
		for _, x := range l {
			names = append(names, fmt.Sprintf("%s/%v", x.Name(), x.IsDir()))
		}
		return e(err) + ":" + strings.Join(names, ",")
	case kStat:
		i, err := os.Stat(p)
		if err != nil {
			return "err"
		}
		sz := int64(-1)
		if !i.IsDir() {
			sz = i.Size()
		}
		return fmt.Sprintf("ok:%s/%v/%d", i.Name(), i.IsDir(), sz)
	case kCreateWrite:
		f, err := os.OpenFile(p, os.O_WRONLY|os.O_CREATE|os.O_TRUNC, 0644)
		if err != nil {
			return "err"
		}
		_, e1 := f.Write([]byte("cw"))
		_, e2 := f.Write([]byte("x"))
		return "ok:" + e(e1) + e(e2) + e(f.Close())
	case kAppend:
		f, err := os.OpenFile(p, os.O_WRONLY|os.O_APPEND, 0644)
		if err != nil {
			return "err"
		}
		_, e1 := f.Write([]byte("+"))
		return "ok:" + e(e1) + e(f.Close())
	case kOpenRead:
		f, err := os.Open(p)
		if err != nil {
			return "err"
		}
		b := make([]byte, 2)
		n1, e1 := f.Read(b)
		s1 := string(b[:n1])
		n2, e2 := f.Read(b)
		s2 := string(b[:n2])
		return fmt.Sprintf("ok:%s/%v/%s/%v/%s", s1, e1 == io.EOF, s2, e2 == io.EOF, e(f.Close()))
	case kExcl:
		f, err := os.OpenFile(p, os.O_WRONLY|os.O_CREATE|os.O_EXCL, 0644)
		if err != nil {
			return "err"
		}
		return "ok:" + e(f.Close())
	case kWalk:
		var seen []string
		err := filepath.Walk(p, func(q string, i os.FileInfo, err error) error {
			if err != nil {
				seen = append(seen, "E")
				return nil
			}
			seen = append(seen, fmt.Sprintf("%s/%v", strings.TrimPrefix(q, r.base), i.IsDir()))
			return nil
		})
		return e(err) + ":" + strings.Join(seen, ",")
	}
	return "?"
}

func (r realSys) snapshot() string {
	var out []string
	filepath.Walk(r.base, func(q string, i os.FileInfo, err error) error {
		if err != nil {
			return nil
		}
		s := strings.TrimPrefix(q, r.base)
		if i.IsDir() {
			out = append(out, s+"/")
		} else {
			d, _ := os.ReadFile(q)
			out = append(out, s+"="+string(d))
		}
		return nil
	})
	sort.Strings(out)
	return strings.Join(out, " ")
}

// ---------------------------------------------------------------- model
type modelSys struct{ base string }

func (r modelSys) p(p string) string { return r.base + "/" + p }

func (r modelSys) apply(o op) string {
	p := r.p(o.path)
	switch o.kind {
	case kMkdirAll:
		return e(MkdirAll(p, 0755))
	case kWriteFile:
		return e(WriteFile(p, []byte("W"), 0644))
	case kRemove:
		return e(Remove(p))
	case kRemoveAll:
		return e(RemoveAll(p))
	case kReadFile:
		d, err := ReadFile(p)
		return e(err) + ":" + string(d)
	case kReadDir:
		l, err := ReadDir(p)
		var names []string
		for _, x := range l {
			names = append(names, fmt.Sprintf("%s/%v", x.Name(), x.IsDir()))
		}
		return e(err) + ":" + strings.Join(names, ",")
	case kStat:
		i, err := Stat(p)
		if err != nil {
			return "err"
		}
		sz := int64(-1)
		if !i.IsDir() {
			sz = i.Size()
		}
		return fmt.Sprintf("ok:%s/%v/%d", i.Name(), i.IsDir(), sz)
	case kCreateWrite:
		f, err := OpenFile(p, os.O_WRONLY|os.O_CREATE|os.O_TRUNC, 0644)
		if err != nil {
			return "err"
		}
		_, e1 := FileWrite(f, []byte("cw"))
		_, e2 := FileWrite(f, []byte("x"))
		return "ok:" + e(e1) + e(e2) + e(FileClose(f))
	case kAppend:
		f, err := OpenFile(p, os.O_WRONLY|os.O_APPEND, 0644)
		if err != nil {
			return "err"
		}
		_, e1 := FileWrite(f, []byte("+"))
		return "ok:" + e(e1) + e(FileClose(f))
	case kOpenRead:
		f, err := Open(p)
		if err != nil {
			return "err"
		}
		b := make([]byte, 2)
		n1, e1 := FileRead(f, b)
		s1 := string(b[:n1])
		n2, e2 := FileRead(f, b)
		s2 := string(b[:n2])
		return fmt.Sprintf("ok:%s/%v/%s/%v/%s", s1, e1 == io.EOF, s2, e2 == io.EOF, e(FileClose(f)))
	case kExcl:
		f, err := OpenFile(p, os.O_WRONLY|os.O_CREATE|os.O_EXCL, 0644)
		if err != nil {
			return "err"
		}
		return "ok:" + e(FileClose(f))
	case kWalk:
		var seen []string
		err := Walk(p, func(q string, i os.FileInfo, err error) error {
			if err != nil {
				seen = append(seen, "E")
				return nil
			}
			seen = append(seen, fmt.Sprintf("%s/%v", strings.TrimPrefix(q, r.base), i.IsDir()))
			return nil
		})
		return e(err) + ":" + strings.Join(seen, ",")
	}
	return "?"
}

func (r modelSys) snapshot() string {
	var out []string
	Walk(r.base, func(q string, i os.FileInfo, err error) error {
		if err != nil {
			return nil
		}
		s := strings.TrimPrefix(q, r.base)
		if i.IsDir() {
			out = append(out, s+"/")
		} else {
			d, _ := ReadFile(q)
			out = append(out, s+"="+string(d))
		}
		return nil
	})
	sort.Strings(out)
	return strings.Join(out, " ")
}

func runSeq(t *testing.T, tmp string, id int, seq []op) (string, string) {
	base := filepath.Join(tmp, fmt.Sprintf("s%d", id))
	if err := os.Mkdir(base, 0755); err != nil {
		t.Fatal(err)
	}
	defer os.RemoveAll(base)
	Reset()
	mbase := "/m"
	MkdirAll(mbase, 0755)
	r, m := realSys{base}, modelSys{mbase}
	var tr, tm []string
	for _, o := range seq {
		tr = append(tr, r.apply(o))
		tm = append(tm, m.apply(o))
	}
	tr = append(tr, r.snapshot())
	tm = append(tm, m.snapshot())
	return strings.Join(tr, " | "), strings.Join(tm, " | ")
}

// TestWalkWithMutatingCallback: entries created by the callback inside the
// directory being reported are not visited (the names are read before the
// callback), entries created in a directory that is listed later are.
func TestWalkWithMutatingCallback(t *testing.T) {
	tmp := t.TempDir()
	for _, target := range []string{"d/x", "d/s/x"} {
		base := filepath.Join(tmp, strings.ReplaceAll(target, "/", "_"))
		os.MkdirAll(base+"/d/s", 0755)
		os.WriteFile(base+"/d/f", []byte("1"), 0644)
		Reset()
		MkdirAll("/m/d/s", 0755)
		WriteFile("/m/d/f", []byte("1"), 0644)
		var real, model []string
		filepath.Walk(base+"/d", func(q string, i os.FileInfo, err error) error {
			if len(real) > 20 {
				return filepath.SkipDir
			}
			real = append(real, strings.TrimPrefix(q, base))
			if q == base+"/d" {
				os.MkdirAll(base+"/"+target, 0755)
			}
			return nil
		})
		Walk("/m/d", func(q string, i os.FileInfo, err error) error {
			if len(model) > 20 {
				return SkipDir
			}
			model = append(model, strings.TrimPrefix(q, "/m"))
			if q == "/m/d" {
				MkdirAll("/m/"+target, 0755)
			}
			return nil
		})
		if strings.Join(real, " ") != strings.Join(model, " ") {
			t.Errorf("target %s: os walk %v, model walk %v", target, real, model)
		}
	}
}

// SkipDir returned for a directory skips its subtree, returned for a file
// skips the rest of the containing directory - for every choice of the node
// that answers SkipDir in a small tree.
func TestWalkSkipDir(t *testing.T) {
	tmp := t.TempDir()
	nodes := []string{"/d", "/d/a", "/d/a/p", "/d/b", "/d/c", "/d/c/q", "/d/e"}
	os.MkdirAll(tmp+"/d/a", 0755)
	os.MkdirAll(tmp+"/d/c", 0755)
	Reset()
	MkdirAll("/m/d/a", 0755)
	MkdirAll("/m/d/c", 0755)
	for _, f := range []string{"/d/a/p", "/d/b", "/d/c/q", "/d/e"} {
		os.WriteFile(tmp+f, []byte("1"), 0644)
		WriteFile("/m"+f, []byte("1"), 0644)
	}
	for _, skipAt := range nodes {
		var real, model []string
		rerr := filepath.Walk(tmp+"/d", func(q string, i os.FileInfo, err error) error {
			real = append(real, strings.TrimPrefix(q, tmp))
			if strings.TrimPrefix(q, tmp) == skipAt {
				return filepath.SkipDir
			}
			return nil
		})
		merr := Walk("/m/d", func(q string, i os.FileInfo, err error) error {
			model = append(model, strings.TrimPrefix(q, "/m"))
			if strings.TrimPrefix(q, "/m") == skipAt {
				return SkipDir
			}
			return nil
		})
		if strings.Join(real, " ") != strings.Join(model, " ") || (rerr == nil) != (merr == nil) {
			t.Errorf("skip at %s: os walk %v (%v), model walk %v (%v)", skipAt, real, rerr, model, merr)
		}
	}
}

func TestModelAgreesWithOS(t *testing.T) {
	depth := 3
	if os.Getenv("HOSTFSDIFF_DEPTH") == "2" {
		depth = 2
	}
	tmp := t.TempDir()
	var alphabet []op
	for k := 0; k < nKinds; k++ {
		for _, p := range paths {
			alphabet = append(alphabet, op{k, p})
		}
	}
	// mutating prefix ops (depth-1 positions) are restricted to the kinds that
	// change the tree; the last position ranges over the whole alphabet
	var mut []op
	for _, o := range alphabet {
		switch o.kind {
		case kMkdirAll, kWriteFile, kRemove, kRemoveAll, kCreateWrite, kAppend, kExcl:
			mut = append(mut, o)
		}
	}
	n, bad := 0, 0
	var rec func(seq []op)
	rec = func(seq []op) {
		if len(seq) == depth {
			n++
			a, b := runSeq(t, tmp, n, seq)
			if a != b {
				bad++
				if bad <= 15 {
					var d []string
					for _, o := range seq {
						d = append(d, kindName[o.kind]+"("+o.path+")")
					}
					t.Errorf("%s\n   os:    %s\n   model: %s", strings.Join(d, "; "), a, b)
				}
			}
			return
		}
		from := mut
		if len(seq) == depth-1 {
			from = alphabet
		}
		for _, o := range from {
			rec(append(append([]op{}, seq...), o))
		}
	}
	rec(nil)
	t.Logf("hostfs model vs OS: %d sequences of %d operations, %d disagreements", n, depth, bad)
}
