//go:build verif

// Package racecheck holds litmus tests of the engine's happens-before race
// detector: idioms that are correctly synchronised under the Go memory model
// must never be flagged (no false alarm), unsynchronised conflicting accesses
// must be flagged on every schedule (the detector does not depend on the
// interleaving that happens to be explored).
package racecheck

import (
	"context"
	"math/rand"
	"sync"
	"sync/atomic"

	"github.com/goatcms/goatcore/zzverif/nd"
)

type box struct {
	mu  sync.Mutex
	rw  sync.RWMutex
	n   int
	arr [2]int
	m   map[string]int
}

func run2(f, g func()) {
	var wg sync.WaitGroup
	wg.Add(2)
	go func() { defer wg.Done(); f() }()
	go func() { defer wg.Done(); g() }()
	wg.Wait()
}

// ZZRaceLitmus runs one idiom (symbolic choice) under every schedule with at
// most P preemptions.
func ZZRaceLitmus() {
	nd.Schedule(nd.Param("P", 2))
	nd.Races("*")
	b := &box{m: map[string]int{}}
	idiom := nd.Choose("idiom", 19)
	racy := false
	switch idiom {
	case 0: // mutex
		run2(func() { b.mu.Lock(); b.n++; b.mu.Unlock() }, func() { b.mu.Lock(); b.n++; b.mu.Unlock() })
	case 1: // rwmutex: readers share, writer excludes
		run2(func() { b.rw.RLock(); _ = b.n; b.rw.RUnlock() }, func() { b.rw.Lock(); b.n = 1; b.rw.Unlock() })
	case 2: // two readers
		run2(func() { b.rw.RLock(); _ = b.n; b.rw.RUnlock() }, func() { b.rw.RLock(); _ = b.n; b.rw.RUnlock() })
	case 3: // fork and join through a wait group
		b.n = 1
		run2(func() { b.arr[0] = b.n }, func() { b.arr[1] = b.n })
		b.n = b.arr[0] + b.arr[1]
	case 4: // unbuffered channel hand-off
		ch := make(chan int)
		run2(func() { b.n = 5; ch <- 1 }, func() { <-ch; b.n++ })
	case 5: // buffered channel hand-off
		ch := make(chan int, 1)
		run2(func() { b.n = 5; ch <- 1 }, func() { <-ch; b.n++ })
	case 6: // close as broadcast
		ch := make(chan struct{})
		run2(func() { b.n = 5; close(ch) }, func() { <-ch; _ = b.n })
	case 7: // buffered channel of capacity 1 used as a lock
		sem := make(chan struct{}, 1)
		run2(func() { sem <- struct{}{}; b.n++; <-sem }, func() { sem <- struct{}{}; b.n++; <-sem })
	case 8: // atomic flag publishes plain data
		var ready int32
		run2(func() { b.n = 7; atomic.StoreInt32(&ready, 1) }, func() {
			if atomic.LoadInt32(&ready) == 1 {
				_ = b.n
			}
		})
	case 9: // sync.Once initialisation
		var once sync.Once
		init := func() { b.n = 3 }
		run2(func() { once.Do(init); _ = b.n }, func() { once.Do(init); _ = b.n })
	case 10: // context cancellation publishes
		ctx, cancel := context.WithCancel(context.Background())
		run2(func() { b.n = 9; cancel() }, func() { <-ctx.Done(); _ = b.n })
	case 11: // select receive
		ch := make(chan int, 1)
		run2(func() { b.n = 5; ch <- 1 }, func() {
			select {
			case <-ch:
				b.n++
			}
		})
	case 12: // atomic.Value publication
		var v atomic.Value
		run2(func() { x := &box{n: 4}; v.Store(x) }, func() {
			if x, ok := v.Load().(*box); ok {
				_ = x.n
			}
		})
	case 13: // RACY: plain increments
		racy = true
		run2(func() { b.n++ }, func() { b.n++ })
	case 14: // RACY: locked writer, unlocked reader
		racy = true
		run2(func() { b.mu.Lock(); b.n = 1; b.mu.Unlock() }, func() { _ = b.n })
	case 15: // RACY: read lock held while writing
		racy = true
		run2(func() { b.rw.RLock(); b.n = 1; b.rw.RUnlock() }, func() { b.rw.RLock(); b.n = 2; b.rw.RUnlock() })
	case 16: // RACY: two different mutexes
		racy = true
		var other sync.Mutex
		run2(func() { b.mu.Lock(); b.arr[0]++; b.mu.Unlock() }, func() { other.Lock(); b.arr[0]++; other.Unlock() })
	case 17: // RACY: whole-struct read against a field write
		racy = true
		type pair struct{ a, b int }
		p := &pair{}
		run2(func() { p.a = 1 }, func() { q := *p; _ = q })
	case 18: // RACY: one math/rand source drawn from by two goroutines
		racy = true
		src := rand.NewSource(1)
		run2(func() { src.Int63() }, func() { src.Int63() })
	}
	if racy {
		nd.Assert(nd.RacesSeen() > 0, "RACEMODEL/unsynchronised-access-not-flagged")
		nd.Reach("RACEMODEL/racy-detected")
	} else {
		nd.Assert(nd.RacesSeen() == 0, "RACEMODEL/synchronised-idiom-flagged")
	}
	nd.Reach("RACEMODEL/end")
}
