#!/usr/bin/env python3
# usage: gen.py <workdir> <pkgdir>...
# Prepares a gosym spec that runs the repository's OWN test functions of the
# given packages under the symbolic engine (concretely: the tests have no
# symbolic input). The in-package _test.go files are copied as ordinary files
# whose import of "testing" is redirected to the shim zzverif/zzt; one harness
# per Test function. A test that fails under the engine although it passes
# natively is a disagreement between the engine (or one of its models) and the
# real semantics. Regenerated from /repo's current tree on every run.
import sys, os, re, json, shutil
repo = os.environ.get('GOSYM_REPO', '/repo')
work = sys.argv[1]
pkgs = sys.argv[2:]
here = os.path.dirname(os.path.abspath(__file__))
shutil.rmtree(work, ignore_errors=True)
os.makedirs(work)
shutil.copy(os.path.join(here, 'zzt.go'), os.path.join(work, 'zzt.go'))
files = [{"src": "zzt.go", "pkg": "zzverif/zzt"}]
# the host file-system model behind os.* (tests that use temporary directories)
shutil.copy(os.path.join(here, '..', '..', 'harness', 'lib', 'hostfs.go'), os.path.join(work, 'hostfs.go'))
files.append({"src": "hostfs.go", "pkg": "zzverif/hostfs"})
harnesses = []
skipped = []
for pkg in pkgs:
    d = os.path.join(repo, pkg)
    flat = pkg.replace('/', '_')
    tests = []
    pkgname = None
    for f in sorted(os.listdir(d)):
        if not f.endswith('_test.go'):
            continue
        src = open(os.path.join(d, f)).read()
        m = re.search(r'^package (\w+)', src, re.M)
        if not m or m.group(1).endswith('_test'):
            skipped.append(pkg + '/' + f + ' (external test package)')
            continue
        pkgname = m.group(1)
        if '"testing"' not in src:
            body = src
        else:
            body = src.replace('"testing"', 'testing "github.com/goatcms/goatcore/zzverif/zzt"', 1)
        body = re.sub(r'^//go:build .*\n', '', body, flags=re.M)
        out = '%s__%s_tcopy.go' % (flat, f[:-len('_test.go')])
        open(os.path.join(work, out), 'w').write('//go:build verif\n\n' + body)
        files.append({"src": out, "pkg": pkg})
        tests += re.findall(r'^func (Test\w+)\(\w+ \*testing\.T\)', src, re.M)
    tests = [t for t in tests if t != 'TestMain']
    if not tests:
        continue
    h = ['//go:build verif', '', 'package ' + pkgname, '',
         'import (', '\ttesting "github.com/goatcms/goatcore/zzverif/zzt"',
         '\t_ "github.com/goatcms/goatcore/zzverif/hostfs" // initialised with the harness package', ')', '']
    for t in tests:
        h += ['func ZZRT_%s() {' % t, '\tt := testing.New("%s")' % t, '\t%s(t)' % t, '\tt.Done()', '}', '']
        harnesses.append({"func": "ZZRT_" + t, "pkg": pkg, "reach": ["repotest/end"], "steps": 5000000, "max_goroutines": 128})
    out = '%s__zzrt.go' % flat
    open(os.path.join(work, out), 'w').write('\n'.join(h))
    files.append({"src": out, "pkg": pkg})
spec = {"property": "REPOTESTS", "files": files, "harnesses": harnesses,
        "assumptions": ["the repository's own tests, executed by the engine"], "quick_budget_s": 1500}
json.dump(spec, open(os.path.join(work, 'spec.json'), 'w'), indent=1)
print(len(harnesses), 'test functions in', len(pkgs), 'packages;', len(skipped), 'files skipped')
