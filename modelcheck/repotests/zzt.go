//go:build verif

// Package zzt stands in for package testing when the repository's own test
// functions are executed by the symbolic engine (modelcheck/repotests): the
// copies of the _test.go files import it under the name "testing". A failed
// test is an nd.Assert failure labelled repotest/<name>.
package zzt

import (
	"os"

	"github.com/goatcms/goatcore/zzverif/nd"
)

type common struct {
	name     string
	failed   bool
	cleanups []func()
	tmp      int
}

// T mirrors the part of *testing.T the repository's tests use.
type T struct{ common }

// B exists so that benchmark functions compile; they are not executed.
type B struct {
	common
	N int
}

// TB is the interface shared by T and B.
type TB interface {
	Error(args ...interface{})
	Errorf(format string, args ...interface{})
	Fail()
	FailNow()
	Failed() bool
	Fatal(args ...interface{})
	Fatalf(format string, args ...interface{})
	Helper()
	Log(args ...interface{})
	Logf(format string, args ...interface{})
	Name() string
	Skip(args ...interface{})
	Skipf(format string, args ...interface{})
	SkipNow()
	Cleanup(func())
	TempDir() string
}

// M exists for TestMain signatures.
type M struct{}

func (m *M) Run() int { return 0 }

func New(name string) *T { return &T{common{name: name}} }

func (c *common) fail(now bool) {
	c.failed = true
	// a concrete failed assertion ends the path; the label names the test
	nd.Assert(false, "repotest/"+c.name+"/failed")
	_ = now
}

func (c *common) Error(args ...interface{})                 { nd.Log("t.Error ", args); c.fail(false) }
func (c *common) Errorf(format string, args ...interface{}) { nd.Log("t.Errorf ", format); c.fail(false) }
func (c *common) Fail()                                     { c.fail(false) }
func (c *common) FailNow()                                  { c.fail(true) }
func (c *common) Failed() bool                              { return c.failed }
func (c *common) Fatal(args ...interface{})                 { nd.Log("t.Fatal ", args); c.fail(true) }
func (c *common) Fatalf(format string, args ...interface{}) { nd.Log("t.Fatalf ", format); c.fail(true) }
func (c *common) Helper()                                   {}
func (c *common) Log(args ...interface{})                   {}
func (c *common) Logf(format string, args ...interface{})   {}
func (c *common) Name() string                              { return c.name }
func (c *common) Cleanup(f func())                          { c.cleanups = append(c.cleanups, f) }
func (c *common) Setenv(key, value string)                  {}

func (c *common) skip() {
	nd.Reach("repotest/end")
	nd.Assume(false) // the test ends here
}
func (c *common) Skip(args ...interface{})                 { c.skip() }
func (c *common) Skipf(format string, args ...interface{}) { c.skip() }
func (c *common) SkipNow()                                 { c.skip() }
func (c *common) Skipped() bool                            { return false }

func (c *common) TempDir() string {
	c.tmp++
	d := "/tmp/zzt/" + c.name + "/" + string(rune('0'+c.tmp))
	os.MkdirAll(d, 0777)
	return d
}

func (c *common) done() {
	for i := len(c.cleanups) - 1; i >= 0; i-- {
		c.cleanups[i]()
	}
}

func (t *T) Parallel() {}

func (t *T) Run(name string, f func(t *T)) bool {
	sub := &T{common{name: t.name + "/" + name}}
	f(sub)
	sub.done()
	return !sub.failed
}

// Done ends a top-level test.
func (t *T) Done() {
	t.done()
	nd.Reach("repotest/end")
}

func (b *B) ResetTimer()              {}
func (b *B) StartTimer()              {}
func (b *B) StopTimer()               {}
func (b *B) ReportAllocs()            {}
func (b *B) SetBytes(n int64)         {}
func (b *B) Run(string, func(*B)) bool { return true }

// PB exists so that parallel benchmarks compile.
type PB struct{}

func (pb *PB) Next() bool { return false }

func (b *B) RunParallel(func(*PB)) {}

func Short() bool   { return false }
func Verbose() bool { return false }
