#!/bin/bash
# Translator validation (Serval-style): the repository's own test functions
# are executed by the symbolic engine. A test that fails there although it
# passes natively is a disagreement between the engine or one of its models
# and the real semantics (exit 1), unless it is a listed, intended deviation.
# Tests that need something the engine does not model are counted as
# unsupported (no verdict).
here=$(cd $(dirname $0) && pwd); verif=$(cd $here/../.. && pwd)
work=$verif/.work/repotests
export GOFLAGS=-mod=mod GOPROXY=off GOSUMDB=off GOTOOLCHAIN=local VERIF_DIR=$verif
[ -x $verif/bin/gosym ] || (cd $verif/engine && go build -o ../bin/gosym .)
python3 $here/gen.py $work $(cat $here/packages.txt) || exit 2
(cd $verif && timeout 1500 ./bin/gosym check -spec $work -noevidence -noreplay > $work/log.txt 2>&1)
python3 - $work/log.txt $here/known_deviations.txt <<'PY'
import re, sys, collections
log = open(sys.argv[1]).read()
known = {l.split()[0]: l.strip() for l in open(sys.argv[2]) if l.strip() and not l.startswith('#')}
if 'load error' in log or not re.search(r'^\[REPOTESTS\]', log, re.M):
    print(log[-2000:]); print('REPOTESTS: could not load'); sys.exit(2)
tests = re.findall(r'^\[REPOTESTS\] ZZRT_(\w+): .* violations=(\d+)', log, re.M)
inc = collections.defaultdict(list)
for m in re.finditer(r'^INCONCLUSIVE: ZZRT_(\w+): (.*)$', log, re.M):
    inc[m.group(1)].append(m.group(2))
ok = [t for t, v in tests if v == '0' and t not in inc]
fail = [t for t, v in tests if v != '0']
uns = [t for t, v in tests if v == '0' and t in inc]
bad = [t for t in fail if t not in known]
reasons = collections.Counter()
for t in uns:
    r = [x for x in inc[t] if 'vacuity' not in x] or inc[t]
    reasons[re.sub(r' \(x\d+\)$', '', r[0])[:90]] += 1
print('REPOTESTS: %d test functions executed by the engine: %d pass, %d fail by a listed deviation, %d fail UNEXPECTEDLY, %d unsupported'
      % (len(tests), len(ok), len(fail) - len(bad), len(bad), len(uns)))
for r, n in reasons.most_common(8):
    print('  unsupported x%d: %s' % (n, r))
for t in bad:
    print('  DISAGREEMENT: %s fails under the engine' % t)
sys.exit(1 if bad else 0)
PY
rc=$?
rm -rf $work
exit $rc
