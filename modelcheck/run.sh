#!/bin/bash
# Native differential validation of the interpreted environment models against
# the real thing (the host file-system model against the OS, the shell model
# against /bin/sh, the regexp/strings models via gosym harnesses).
# Run by setup; a disagreement fails setup.
set -e
here=$(cd $(dirname $0) && pwd); verif=$(dirname $here)
work=$verif/.work/modelcheck; rm -rf $work; mkdir -p $work/hostfsdiff
export GOFLAGS=-mod=mod GOPROXY=off GOSUMDB=off GOTOOLCHAIN=local
cp $here/hostfsdiff/diff_test.go $work/hostfsdiff/
sed 's/^package hostfs$/package hostfsdiff/' $verif/harness/lib/hostfs.go > $work/hostfsdiff/hostfs.go
cat > $work/go.mod <<EOM
module modelcheck
go 1.23
EOM
mkdir -p $work/shdiff $work/zzverif/nd $work/zzverif/shmodel
cp $here/shdiff/diff_test.go $work/shdiff/
cp $verif/zz/nd/nd.go $work/zzverif/nd/
cp $verif/harness/lib/shmodel.go $work/zzverif/shmodel/
sed -i 's/^module modelcheck$/module github.com\/goatcms\/goatcore/' $work/go.mod
rc=0
(cd $work && HOSTFSDIFF_DEPTH=${HOSTFSDIFF_DEPTH:-2} go test -tags verif -count=1 -v ./hostfsdiff/ ./shdiff/ 2>&1 | grep -v "^=== RUN" | tail -40; exit ${PIPESTATUS[0]}) || rc=1
# engine-side models (regexp NFA -> term) against the real library
(cd $verif/engine && go test -count=1 -run 'TestRegexpModel' -v . 2>&1 | grep -v "^=== RUN" | tail -10; exit ${PIPESTATUS[0]}) || rc=1
# library code under the engine against byte-loop references, solver-decided
[ -x $verif/bin/gosym ] || (cd $verif/engine && go build -o ../bin/gosym .)
(cd $verif && VERIF_DIR=$verif ./bin/gosym check -spec modelcheck/libspec -noevidence 2>&1 | grep "^\[MODELS\]\|^OK\|VIOLATION\|UNCONFIRMED\|INCONCLUSIVE"; exit ${PIPESTATUS[0]}) || rc=1
# litmus tests of the happens-before race detector
(cd $verif && VERIF_DIR=$verif ./bin/gosym check -spec modelcheck/racespec -noevidence 2>&1 | grep "^\[RACEMODEL\]\|^OK\|VIOLATION\|UNCONFIRMED\|INCONCLUSIVE"; exit ${PIPESTATUS[0]}) || rc=1
rm -rf $work
# the repository's own tests executed by the engine (translator validation).
# This step depends on /repo's current tree: a disagreement is reported, but
# fails setup only with REPOTESTS_STRICT=1 (as run while developing), so that
# a changed tree under check can never block the checks themselves.
$here/repotests/run.sh || { [ -n "$REPOTESTS_STRICT" ] && rc=1; }
[ $rc = 0 ] && echo "modelcheck ok"
exit $rc
