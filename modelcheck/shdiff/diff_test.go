//go:build verif

// Native differential validation of the here-document model of
// harness/lib/shmodel.go against the real /bin/sh: whenever the model says
// "the script assigns exactly v", the shell must assign exactly v.
package shdiff

import (
	"bytes"
	"os"
	"testing"

	"github.com/goatcms/goatcore/zzverif/shmodel"
)

func TestHeredocModelAgreesWithShell(t *testing.T) {
	alphabet := []byte{'a', '$', '`', '\\', '\'', '"', '\n', 'T', ' ', '(', '{'}
	maxLen := 3
	if os.Getenv("SHDIFF_LEN") == "4" {
		maxLen = 4
	}
	var bodies [][]byte
	var gen func(cur []byte)
	gen = func(cur []byte) {
		bodies = append(bodies, append([]byte{}, cur...))
		if len(cur) == maxLen {
			return
		}
		for _, c := range alphabet {
			gen(append(cur, c))
		}
	}
	gen(nil)
	n, sound, imprecise, bad := 0, 0, 0, 0
	for _, quoted := range []bool{true, false} {
		for _, body := range bodies {
			tag := "T"
			var script []byte
			script = append(script, "X=$(cat <<"...)
			if quoted {
				script = append(script, "'T'"...)
			} else {
				script = append(script, tag...)
			}
			script = append(script, '\n')
			script = append(script, body...)
			script = append(script, "\nT\n)\n"...)
			n++
			mv, mok := shmodel.AssignedModel(script, "X", tag)
			if !mok {
				// model declines: nothing is claimed; count how often the shell
				// would in fact have assigned the body verbatim (imprecision)
				if rv, rok := shmodel.RealShell(script, "X"); rok && bytes.Equal(rv, shmodel.TrimNL(body)) {
					imprecise++
				}
				continue
			}
			rv, rok := shmodel.RealShell(script, "X")
			if !rok || !bytes.Equal(rv, mv) {
				bad++
				if bad <= 10 {
					t.Errorf("quoted=%v body=%q: model says %q, shell assigns %q (ok=%v)", quoted, body, mv, rv, rok)
				}
				continue
			}
			sound++
		}
	}
	t.Logf("heredoc model vs /bin/sh: %d scripts, %d verbatim claims confirmed, %d wrong, %d declined although the shell was verbatim", n, sound, bad, imprecise)
}
